#!/bin/bash
# usage: tools/mutest.sh <patch.diff> C01 [C03 ...]   -- run quick checks against a scratch copy of /repo with the patch applied
set -u
PATCH=$(realpath "$1"); shift
D=$(mktemp -d /tmp/mut_XXXXXX)
rsync -a --exclude .git --exclude tests/output /repo/ "$D/"
( cd "$D" && patch -p1 -s < "$PATCH" ) || { echo "PATCH FAILED"; rm -rf "$D"; exit 3; }
cd /verif
for P in "$@"; do
  VERIF_REPO="$D" VERIF_EVIDENCE_DIR="$D/.evidence" VERIF_REPLAY_DIR="$D/.replay" timeout 3000 ./check "$P" --tier quick > "$D/out_$P.txt" 2>&1
  rc=$?
  echo "$P rc=$rc  $(grep -m1 -E '^VIOLATION|HARNESS-ERROR' "$D/out_$P.txt")"
  grep -m1 -A1 '^VIOLATION' "$D/out_$P.txt" | tail -1
done
rm -rf "$D"
