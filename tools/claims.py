NOT_YET = {}
CLAIMED = {
 "C01": dict(
   text="Generated projects (sub-slot efforts, fractional efficiencies, shared resources, teams, alternatives, ASAP/ALAP, six resolutions) are scheduled by the real code and every resource-slot of the usage ledger is checked against the double-booking invariants; a Hypothesis state machine additionally drives book / finish-and-release episodes on the real objects. Exploration: absence is not established, but every shared-slot configuration reachable by the generators is judged by an oracle that shares no code with the scheduler.",
   note="Trusts Hypothesis, the ProjectSpec renderer and the reading of slotTaskUsage/slotSecondsUsed as the ledger; forward/backward tasks sharing a slot are a recorded finding (F01) and are explored in a separate region campaign.",
   technique="property-based testing (Hypothesis composite generators + rule-based state machine) against ledger invariants"),
 "C02": dict(
   text="Generated calendars (own hours, shifts, default; several intervals per day, cross-midnight, day groups; IANA zones with DST transitions inside the horizon and date-line zones; single-day and ranged leaves, vacations, blocking bookings, global vacations and holidays; five resolutions; ASAP and ALAP) are scheduled by the real code and every booked ledger slot is judged by a calendar recomputed independently from the project model. Exploration level: the calendar oracle shares no code with scriptplan, so a scheduler bug and its calendar helper cannot be wrong together unnoticed.",
   note="Trusts zoneinfo, the ProjectSpec renderer and the slot-alignment preconditions of DESIGN 3.1; one-directional by design (idle working time is C08's business).",
   technique="property-based testing (Hypothesis) against an independent reference calendar"),
 "C03": dict(
   text="Generated efforts (whole slots, fractions of a slot, primes of minutes), efficiencies 0.1-4, six resolutions, contention, teams and alternatives, ASAP and ALAP; for every scheduled task the booked seconds weighted by efficiency are compared with the requested effort (one second of work tolerance), team members must hold identical slot/second maps and alternatives must not be mixed.",
   note="Trusts the ledger as ground truth of bookings and the renderer; unequal-efficiency teams judged for the same-instants clause only.",
   technique="property-based testing (Hypothesis) against an arithmetic oracle over the usage ledger"),
 "C06": dict(
   text="Generated projects with sub-slot efforts, mid-slot predecessors, milestones, ASAP/ALAP; each scheduled task's reported [start,end] is compared with its first/last booked slot and the seconds booked there (tightness and containment, 1 s rounding), milestones with the dependency bound recomputed from the model.",
   note="Trusts ledger + reported dates extraction; milestone bound judged for forward milestones with all predecessors scheduled.",
   technique="property-based testing (Hypothesis) with a validity predicate relating reported dates to the ledger"),
 "C04": dict(
   text="Generated nested task trees with DAGs over leaves and containers (own/inherited/precedes edges, relative and absolute references, min/h/d/w gaps, on-start, sub-slot efforts, dated containers, forward projects and backward projects shaped as the statement allows); every edge re-derived from the model is checked against the reported dates of scheduled, unpinned leaf tasks.",
   note="Trusts the renderer's reference spelling (true targets are kept in the model); unscheduled tasks, gaplength, on-start edges in backward mode and mode mixing are not judged (statement). Cyclic inputs are excluded by construction at leaf level.",
   technique="property-based testing (Hypothesis) with edges re-derived from the generating model"),
 "C05": dict(
   text="Generated limits (dailymax/weeklymax on resources, groups, tasks, task groups, resource-qualified; values that are not whole slots) in projects of 2 days to 3 years around 53-week ISO year ends, ASAP and ALAP; booked seconds are re-aggregated per calendar day / ISO week from the usage ledger over the whole scheduled horizon and compared with every limit of the model.",
   note="Trusts the ledger and UTC day/ISO-week arithmetic of the Python standard library; a resource-qualified task limit is judged per listed resource (TaskJuggler semantics).",
   technique="property-based testing (Hypothesis) with an aggregation oracle over the usage ledger"),
 "C10": dict(
   text="Generated task trees up to six levels deep with schedulable and unschedulable leaves (never-working resource, cycles, group allocations, unresolved references), dated containers, containers carrying work attributes and resource groups; the container flags and dates are recomputed bottom-up from the reported leaf values (in every scenario of multi-scenario projects) and the ledger is scanned for container tasks and group resources.",
   note="Leaf values are taken as reported (their correctness is the business of C03/C06/C07); trusts the renderer.",
   technique="property-based testing (Hypothesis) with a bottom-up roll-up oracle"),
 "C07": dict(
   text="Random projects of the core dialect and the complete enumeration of a bounded universe (2.3 M projects; quick runs a seed-selected 1/64 slice) are scheduled by the real code and by an independent ~200-line reference list scheduler built on the independent calendar; scheduled flag, start and end of every leaf task must be equal. Differential exploration against a reference model: any off-by-one slot, flipped tie-break, misapplied gap or limit shows up as a date difference.",
   note="Trusts the reference's reading of the documented rule (milestone pre-pass, nearest dated container as lower bound, team = one limit unit per member); horizon-edge tasks compared only if both scheduled.",
   technique="differential property-based testing + exhaustive bounded enumeration against an independent reference scheduler"),
 "C08": dict(
   text="Generated projects (sub-slot efforts, contention, leaves, zones, cross-midnight shifts; forward tasks, project-level and anchored task-level ALAP) are scheduled by the real code; for every judged task the slots between its dependency bound and its end (mirror: between its end and its deadline) are scanned in the final ledger for a slot that is working for all of its resources by the independent calendar, entirely unbooked and unused by the task.",
   note="Sound because bookings are never withdrawn; slot granularity as stated; limited tasks and alternatives are generated but not judged; tasks that become backward by the documented ALAP propagation are judged when they lie on a leaf-to-leaf chain from an anchor, otherwise skipped; two sub-slot effects of the position-less slot ledger are recorded findings (F02, F04); dependency bounds use the observed predecessor dates.",
   technique="property-based testing (Hypothesis) with a universally quantified validity predicate over free slots, against an independent calendar"),
 "C09": dict(
   text="Metamorphic pairs (base project vs. base project plus one lowest-priority task nothing depends on, inserted at any position/nesting, on any resource or team, pinned / dependent / anchored ALAP) are both scheduled by the real code; dates, flags and per-task bookings of all base tasks must be identical. Pairs whose effective horizon differs are discarded and counted.",
   note="The relation needs no model of the scheduler; trusts the renderer and that the only legitimate channel is the horizon extension (discard rule). ALAP intruders and intruders in backward projects carry no own or inherited dependencies.",
   technique="metamorphic property-based testing (Hypothesis): add-a-lowest-priority-task relation, plus a generated contest of independent tasks on one resource for the served-first clause"),
 "C14": dict(
   text="Metamorphic pairs: a generated UTC project and the same project with every date moved by k weeks (k from 1 week to 6 years), project starts concentrated around year ends, leap days and 53-week ISO years; both are scheduled by the real code and every reported date of the shifted run minus k weeks must equal the original run.",
   note="No model of the scheduler is needed; trusts the date-shifting of the model (all dates are kept in the model, none in free text). Resource time zones and month/year durations are outside the relation.",
   technique="metamorphic property-based testing (Hypothesis): week-shift equivariance"),
 "C15": dict(
   text="One generated project model is rendered under two spellings drawn from the listed meaning-preserving rewrites (consistent renaming incl. deliberately colliding local ids, absolute/relative references, depends/precedes inversion incl. gapped edges, shift reference vs inline hours, comments/whitespace/CRLF, macro extraction); both texts are scheduled by the real code and all dates must agree after mapping identifiers back.",
   note="The model keeps true dependency targets, so the comparison does not depend on how scriptplan resolved either text; macro parameters are not generated (undocumented here).",
   technique="metamorphic property-based testing (Hypothesis): two renderings of one model"),
 "C16": dict(
   text="Generated projects with scenario trees (1-4 scenarios, depth <= 3) and scenario-specific effort/start/end overrides; every scenario of the multi-scenario run is compared, dates and per-scenario ledger, with a single-scenario run of the text in which that scenario's effective values are written as plain attributes (differential / metamorphic relation). Covers 'adding scenarios changes nothing', 'no overrides = parent' and 'nothing carries over'.",
   note="The effective-value rule (own, else nearest ancestor scenario, else plain) is the checker's reading of the statement; later scenarios whose overrides need a different horizon than the first are a recorded finding (F03).",
   technique="differential / metamorphic property-based testing (Hypothesis): multi-scenario run vs single-scenario runs"),
 "C17": dict(
   text="Complete enumeration of the stated grid: every index of [-3, size+3] and boundary/mid-slot instants of 200+ windows x 10 resolutions (incl. resolutions that do not divide a day) for the Scoreboard and Project conversion pairs against the algebraic laws, and every predicate pattern up to length 8 (quick) / 12 (thorough) x every query window x five minimum durations for collectIntervals against a reference run-length scan.",
   note="Runs in the configuration rebuilt from the current sources; windows longer than 3000 slots are sampled evenly plus both ends (stated in the rule); C13 carries the verdict to the pure fallbacks.",
   technique="exhaustive bounded enumeration against algebraic laws and a reference implementation"),
 "C13": dict(
   text="Differential testing of the two implementations in separate processes: pure-Python fallbacks (extensions blocked) versus extensions rebuilt from the current .pyx sources; exhaustive grids for the five accelerated functions (about a million argument points in the quick tier) and generated projects scheduled end to end with dates and the full float ledger compared exactly.",
   note="The in-tree .so is only compared for a staleness note; verdicts come from sources (a .pyx edit is visible because it is recompiled, a fallback edit because the extensions are blocked). Trusts Cython/gcc present in the sandbox.",
   technique="differential testing over exhaustively enumerated grids and Hypothesis-generated projects"),
 "C18": dict(
   text="Generated scheduled projects with 1-3 task reports (column subsets, time formats on project/report, leaf filter, json/csv) are rendered through the real report API 1-5 times in generated order; rows, cells, JSON/CSV agreement, written files and the cost column are recomputed from an independent observation of the schedule and the ledger, and the schedule digest must be unchanged by report generation.",
   note="Trusts the observation extraction (task attributes, ledger) as the scheduled values; column titles, sorting, hiding and other report kinds are outside the statement.",
   technique="property-based testing (Hypothesis) with a reference rendering oracle and a before/after invariant over generation sequences"),
 "C19": dict(
   text="The real plan entry point is run as a subprocess (private cwd and TMPDIR) over generated valid projects (file / '-' / no argument, json / csv, LF / CRLF, with and without own reports in either format, unschedulable tasks) and over the bad-input classes; exit status, stdout bytes (one JSON document with the documented keys and report_id = SHA-256 of the input bytes, or CSV), row content against an independent in-process observation, stderr/stdout separation and file-vs-stdin equality are checked.",
   note="The expected rows come from the API observation of the same text (not from the CLI); trusts click's exit-code propagation and the subprocess harness. About 0.6 s per invocation bounds the case count.",
   technique="property-based testing (Hypothesis) of a subprocess contract with a differential oracle (CLI vs API, file vs stdin)"),
 "C20": dict(
   text="Batches of up to 24 (quick) / 96 (thorough) concurrent plan subprocesses in one working directory and one private TMPDIR over mixed inputs (same file many times, identical copies, stdin, both formats, failing inputs, own reports with hostile names, non-UTF-8 bytes); directory listings before/after, exit status and stdout equality with solitary runs, and an strace-based history monitor on every distinct solitary invocation (writes confined to TMPDIR, everything created is removed, no temp name shared between invocations).",
   note="Interleavings are sampled; the strace clause (name uniqueness + containment per run) is what makes the verdict independent of timing. Falls back to listings only if ptrace is unavailable (noted in the evidence).",
   technique="property-based testing (Hypothesis) of generated concurrent batches + trace-invariant monitoring (strace) of each run"),
 "C11": dict(
   text="Three generators attack totality: grammar-directed hostile projects, token-level corruptions of generated texts and of the repository's 24 fixtures, and coverage-guided fuzzing (atheris/libFuzzer with a token dictionary, fixture-seeded and empty corpus). Every outcome is classified (rejected with a parse-level error / accepted / accepted-infeasible); accepted inputs must schedule within a CPU bound, every leaf must be scheduled inside the horizon or unscheduled with a warning; anything else is an internal error bucketed by (type, innermost scriptplan frame).",
   note="Liveness only up to the CPU bound (20 s, confirmed by solitary re-runs with twice the limit; otherwise inconclusive); SystemExit(1) after an error message counts as rejection (MessageHandler.error is the package's way to reject). libFuzzer runs are pinned by -seed/-runs only approximately.",
   technique="property-based testing (Hypothesis: grammar-directed + mutation) and coverage-guided fuzzing (atheris) with a semantic oracle in the target"),
 "C12": dict(
   text="A Hypothesis rule-based state machine drives one long-lived interpreter through interleaved parse / schedule / re-schedule / report / CLI-style / failing-parse / fault-injected-schedule / drop operations over a pool of projects of different shapes; after every operation that yields a result the digest of dates, ledger, report JSON/CSV and files is compared with the digest of the same text computed in a fresh process. Fresh-process digests are additionally compared across PYTHONHASHSEED values and a spawned multiprocessing worker.",
   note="The reference is the same code in a fresh process (the property is about independence from history, not about correctness); fault injection patches TaskScenario.schedule for one call and restores it.",
   technique="stateful / model-based property-based testing (Hypothesis RuleBasedStateMachine) with fault injection against fresh-process references"),
}
