NOT_YET = {}
CLAIMED = {
 "C01": dict(
   text="Generated projects (sub-slot efforts, fractional efficiencies, shared resources, teams, alternatives, ASAP/ALAP, six resolutions) are scheduled by the real code and every resource-slot of the usage ledger is checked against the double-booking invariants; a Hypothesis state machine additionally drives book / finish-and-release episodes on the real objects. Exploration: absence is not established, but every shared-slot configuration reachable by the generators is judged by an oracle that shares no code with the scheduler.",
   note="Trusts Hypothesis, the ProjectSpec renderer and the reading of slotTaskUsage/slotSecondsUsed as the ledger; forward/backward tasks sharing a slot are a recorded finding (F01) and are explored in a separate region campaign.",
   technique="property-based testing (Hypothesis composite generators + rule-based state machine) against ledger invariants"),
}
