#!/venv/bin/python
"""show dates + ledger of a tjp file: tools/show.py file.tjp [task-substr]"""
import os, sys
sys.path.insert(0, os.path.dirname(os.path.dirname(os.path.abspath(__file__))))
from vlib import observe
text = open(sys.argv[1]).read()
flt = sys.argv[2] if len(sys.argv) > 2 else ""
o = observe.observe(text)
print("ok", o.ok, o.exc_type, o.exc_msg, "start", o.start, "end", o.end, "declared", o.declared_end, "gran", o.gran)
print(o.stderr[-500:])
for si, sc in enumerate(o.scen):
    print("scenario", si)
    for t in sc.tasks:
        name = ".".join(t.path)
        if flt and flt not in name: continue
        per = observe.task_slots(sc, t.path)
        desc = {r: [(str(observe.slot_time(o, s))[5:16], round(v, 2)) for s, v in sorted(d.items())] for r, d in per.items()}
        for r in desc:
            if len(desc[r]) > 6: desc[r] = desc[r][:3] + ["..."] + desc[r][-3:]
        print(f"  {name:12s} {'S' if t.scheduled else '-'} {t.start} -> {t.end}  {desc}")
