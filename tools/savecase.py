#!/venv/bin/python
"""Evaluate a hand-built case (python file defining CASE) and save it as a corpus file.
usage: tools/savecase.py C01 mixed_modes path/to/case.py corpus/C01/name.json [finding-id]"""
import os, sys, json, runpy
sys.path.insert(0, os.path.dirname(os.path.dirname(os.path.abspath(__file__))))
from vlib import engine, findings
prop, camp_name, src, outp = sys.argv[1:5]
fid = sys.argv[5] if len(sys.argv) > 5 else None
mod = engine._load_prop(prop)
camp = {c.name: c for c in mod.campaigns("quick")}[camp_name]
case = runpy.run_path(src)["CASE"]
r = camp.evaluate(case)
unknown, known = engine._split(r.violations, prop, case)
print("key:\n", r.key[:3000]); print("violations:", [str(v) for v in r.violations][:5]); print("unknown", len(unknown), "known", known)
pay = engine._viol_payload(prop, camp_name, case, r.violations, 0, 0, r.sample or r.key)
if fid: pay["witness_of"] = fid
os.makedirs(os.path.dirname(outp), exist_ok=True)
json.dump(pay, open(outp, "w"), indent=1, default=str)
print("saved", outp)
