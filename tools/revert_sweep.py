#!/venv/bin/python
"""For every 'fix:' commit of /repo: revert it alone in a scratch clone, run the quick check of the property it
belongs to against that tree and keep the resulting replay file as a regression case (corpus/<prop>/fixed_<commit>.json).
Shows that each check still sees the defect its fix removed.  usage: tools/revert_sweep.py [commit ...]"""
import json, os, shutil, subprocess, sys, tempfile, glob

MAP = {
 "4c7e6b5": "C01", "6ac1cf3": "C03", "7320aab": "C06", "301d306": "C06", "b71a0aa": "C06", "5f9d358": "C02", "db6ac15": "C02", "5ab491c": "C02",
 "f602519": "C04", "b4ca22f": "C04", "95c53b5": "C04", "6fe31f4": "C07", "e7d1387": "C05", "0eb4ad7": "C10", "8f0912f": "C07", "5f3b449": "C07",
 "ca8063a": "C08", "3f3aa4a": "C13", "7fda8a7": "C08", "92178b6": "C04", "c8615ae": "C11", "7700834": "C14", "34b1ce7": "C15", "72e0d84": "C15",
 "da5e778": "C16", "5629893": "C17", "3b9c2b1": "C17", "b243fbb": "C13", "b398bc1": "C18", "8163a8c": "C18", "4c276c7": "C18", "0157cdd": "C19",
 "e63d1f3": "C20", "312f9d2": "C20", "3cf9f9a": "C11", "5da27eb": "C11", "e7298b9": "C11", "720c038": "C06", "c83ff03": "C11", "46ed363": "C11",
 "f9d28a4": "C11", "dd3ac36": "C11", "c6ad05f": "C11", "1c53ae6": "C11", "57a1176": "C12",
 "233885c": "C11", "dcc8f47": "C11", "efda6c3": "C11", "6a565f2": "C11", "49f5baa": "C05", "74321d3": "C03", "fc6e368": "C08", "1766845": "C13", "457d423": "C09", "70f516a": "C20",
 "35a91bf": "C15", "7e52a3e": "C15", "ddbf87d": "C19", "61602a7": "C11", "e0ed690": "C11", "992883a": "C11",
}
VERIF = os.path.dirname(os.path.dirname(os.path.abspath(__file__)))
commits = sys.argv[1:] or list(MAP)
results = {}
for c in commits:
    prop = MAP[c]
    d = tempfile.mkdtemp(prefix="rev_", dir="/tmp")
    try:
        subprocess.run(["git", "clone", "-q", "/repo", d + "/r"], check=True)
        r = subprocess.run(["git", "-C", d + "/r", "revert", "--no-commit", c], capture_output=True, text=True)
        if r.returncode != 0:
            results[c] = (prop, "revert conflicts (later fixes build on it)")
            print(c, prop, "CONFLICT", flush=True)
            continue
        for seed in os.environ.get("SWEEP_SEEDS", "1").split():  # stop at the first seed that sees it
            env = dict(os.environ, VERIF_REPO=d + "/r", VERIF_EVIDENCE_DIR=d + "/ev", VERIF_REPLAY_DIR=d + "/replay", VERIF_SEED=seed)
            p = subprocess.run([os.path.join(VERIF, "check"), prop, "--tier", os.environ.get("SWEEP_TIER", "quick")], env=env, capture_output=True, text=True, timeout=6000, cwd=VERIF)
            if p.returncode == 1:
                break
        reps = sorted(glob.glob(d + f"/replay/{prop}/*.json"), key=os.path.getsize)
        line = next((l for l in p.stdout.split("\n") if l.startswith("  ")), "")[:200]
        if p.returncode == 1 and reps:
            os.makedirs(os.path.join(VERIF, "corpus", prop), exist_ok=True)
            dst = os.path.join(VERIF, "corpus", prop, f"fixed_{c}.json")
            v = json.load(open(reps[0]))
            v["regression_of"] = c
            json.dump(v, open(dst, "w"), indent=1)
            results[c] = (prop, f"caught (seed {seed}): " + line.strip())
            print(c, prop, "CAUGHT seed", seed, line.strip(), flush=True)
        else:
            results[c] = (prop, f"not caught by the quick tier (rc={p.returncode})")
            print(c, prop, "MISSED rc=%d" % p.returncode, p.stdout[-300:].replace("\n", " | "), flush=True)
    finally:
        shutil.rmtree(d, ignore_errors=True)
outp = os.path.join(VERIF, "corpus", "revert_sweep.json")
allres = json.load(open(outp)) if os.path.exists(outp) and sys.argv[1:] else {}
allres.update(results)
json.dump(allres, open(outp, "w"), indent=1)
