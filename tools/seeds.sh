#!/bin/bash
# quietness over several seeds: tools/seeds.sh "2 3 7 42" [PROPS...]
SEEDS=$1; shift
PROPS=${@:-C01 C02 C03 C04 C05 C06 C07 C08 C09 C10 C11 C12 C13 C14 C15 C16 C17 C18 C19 C20}
cd /verif
for s in $SEEDS; do for p in $PROPS; do
  out=$(VERIF_SEED=$s VERIF_EVIDENCE_DIR=/tmp/ev_seeds VERIF_REPLAY_DIR=/verif/replay/seed$s ./check $p --tier quick 2>&1)
  rc=$?
  echo "seed=$s $p rc=$rc $(echo "$out" | grep -E '^VIOLATION' -A1 | head -2 | tr '\n' ' ' | cut -c1-300)"
done; done
