#!/venv/bin/python
"""Collect-then-bucket triage: run a hyp campaign without stopping at the first failure.
usage: tools/triage.py C01 projects 400 [seed]"""
import os, sys, collections
sys.path.insert(0, os.path.dirname(os.path.dirname(os.path.abspath(__file__))))
os.environ.setdefault("PYTHONHASHSEED", "0")
from vlib import engine
import hypothesis
from hypothesis import given, settings, HealthCheck, Phase
prop, camp_name, n = sys.argv[1], sys.argv[2], int(sys.argv[3])
seed = int(sys.argv[4]) if len(sys.argv) > 4 else 1
mod = engine._load_prop(prop)
camp = {c.name: c for c in mod.campaigns("quick")}[camp_name]
buckets = collections.Counter(); first = {}; tot = [0, 0]; classes = collections.Counter()
@hypothesis.seed(seed)
@settings(max_examples=n, database=None, deadline=None, phases=[Phase.generate], suppress_health_check=list(HealthCheck))
@given(camp.strategy())
def t(case):
    r = camp.evaluate(case)
    tot[0] += 1; tot[1] += bool(r.nontrivial)
    classes.update(r.classes)
    unknown, known = engine._split(r.violations, prop, case)
    seen = set()
    for v in unknown:
        k = v.kind
        if k in seen: continue
        seen.add(k); buckets[k] += 1
        if k not in first or len(r.key) < len(first[k][1]): first[k] = (v, r.key)
t()
print("cases", tot[0], "nontrivial", tot[1])
print("classes", dict(classes.most_common(30)))
for k, c in buckets.most_common():
    print("=" * 80); print(k, c); print(first[k][0]); print(first[k][1][:3000])
