#!/venv/bin/python
"""Find a (small) case that hits an open known finding and save it as its witness.
usage: tools/mkwitness.py C01 mixed_modes F01 corpus/C01/F01_mixed_modes.json [n] [seed]"""
import os, sys, json
sys.path.insert(0, os.path.dirname(os.path.dirname(os.path.abspath(__file__))))
from vlib import engine, findings
import hypothesis
from hypothesis import given, settings, HealthCheck, Phase
prop, camp_name, fid, outp = sys.argv[1:5]
n = int(sys.argv[5]) if len(sys.argv) > 5 else 500
seed = int(sys.argv[6]) if len(sys.argv) > 6 else 1
mod = engine._load_prop(prop)
camp = {c.name: c for c in mod.campaigns("quick")}[camp_name]
best = {}
class Hit(Exception): pass
@hypothesis.seed(seed)
@settings(max_examples=n, database=None, deadline=None, phases=[Phase.generate, Phase.shrink], suppress_health_check=list(HealthCheck), report_multiple_bugs=False)
@given(camp.strategy())
def t(case):
    r = camp.evaluate(case)
    unknown, known = engine._split(r.violations, prop, case)
    if fid in known and not unknown:
        best["case"] = case; best["r"] = r
        raise Hit()
try:
    t(); print("no hit"); sys.exit(1)
except Hit:
    pass
case, r = best["case"], best["r"]
vs = [v for v in r.violations if findings.match(prop, v, case) == fid]
pay = engine._viol_payload(prop, camp_name, case, vs, seed, 0, r.sample or r.key)
pay["witness_of"] = fid
os.makedirs(os.path.dirname(outp), exist_ok=True)
json.dump(pay, open(outp, "w"), indent=1, default=str)
print("saved", outp); print(r.key[:2000]); print(vs[0])
