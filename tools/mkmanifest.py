#!/usr/bin/env python3
"""Regenerate MANIFEST.json from the table below (keeps it valid at all times)."""
import json, os
HERE = os.path.dirname(os.path.dirname(os.path.abspath(__file__)))
PROPS = [json.loads(l) for l in open(os.path.join(HERE, "properties.jsonl"))]
CLAIMED = {}
exec(open(os.path.join(HERE, "tools", "claims.py")).read())
checks = []
na = []
for p in PROPS:
    pid = p["id"]
    if pid in CLAIMED and os.path.exists(os.path.join(HERE, "vlib", "props", pid + ".py")):
        c = CLAIMED[pid]
        checks.append({
            "property_id": pid,
            "quick_cmd": f"./check {pid} --tier quick",
            "thorough_cmd": f"./check {pid} --tier thorough",
            "evidence_file": f"evidence/{pid}.json",
            "replay_cmd_template": f"./check {pid} --replay {{path}}",
            "engine": "vlib",
            "level_claimed": {"category": "exploration", "text": c["text"], "design_ref": "DESIGN.md section 4, " + pid},
            "level_note": c["note"],
            "technique": c["technique"],
        })
    else:
        na.append({"property_id": pid, "reason": NOT_YET.get(pid, "check not built yet in this session (planned in DESIGN.md section 4); not claimed until it exists")})
m = {
    "version": 1,
    "setup_cmd": "/venv/bin/python -c \"import sys; sys.path.insert(0, '/verif'); from vlib import boot; boot.ensure_deps(need_atheris=True); print('deps ok')\"",
    "hooks": {
        "guard": "SCRIPTPLAN_VERIF",
        "enable": "no hooks are needed: all state the properties name is reachable from Python; checks import /repo's working tree directly",
        "baseline_off_cmd": "cd /repo && /venv/bin/python -m pytest -ra -q -p no:cacheprovider --timeout=900 --continue-on-collection-errors",
        "source_commits": [],
        "add_only": True,
    },
    "engines": [{"name": "vlib", "path": "vlib/", "serves_properties": [c["property_id"] for c in checks],
                 "kind_free_text": "Hypothesis property-based / stateful testing, exhaustive bounded enumeration and atheris fuzzing against independent oracles (reference calendar, reference list scheduler, metamorphic and differential relations)"}],
    "checks": checks,
    "not_applicable": na,
    "notes": "All checks: ./check <ID> --tier quick|thorough; exit 0 held / 1 VIOLATION / 2 harness error. Known findings in known_findings.json. See DESIGN.md.",
}
json.dump(m, open(os.path.join(HERE, "MANIFEST.json"), "w"), indent=1)
print("claimed", [c["property_id"] for c in checks], "not claimed", [x["property_id"] for x in na])
