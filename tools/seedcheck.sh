#!/bin/bash
# usage: tools/seedcheck.sh C01 1 [CHECKS...]  -- confirm a sub-agent's candidate change and run checks against it
# Confirms in a scratch copy: patch applies, pinned test suite passes, demo fails with / passes without the change.
set -u
P=$1; I=$2; shift 2
CHECKS=${@:-$P}
OUT=/tmp/wt/out_$P; [ -d "$OUT" ] || OUT=/verif/seeded/_candidates/out_$P
NAME=${P}_${SEED_SUFFIX:-}$I
D=$(mktemp -d /tmp/seed_XXXXXX)
rsync -a --exclude .git --exclude tests/output /repo/ "$D/"
cd "$D"
echo "== $NAME: demo on unchanged copy"
/venv/bin/python $OUT/demo$I.py > "$D/demo_clean.txt" 2>&1; rc_clean=$?
patch -p1 -s < $OUT/patch$I.diff || { echo "PATCH FAILED"; rm -rf "$D"; exit 3; }
echo "== demo with change"
/venv/bin/python $OUT/demo$I.py > "$D/demo_mut.txt" 2>&1; rc_mut=$?
echo "== test suite with change"
/venv/bin/python -m pytest -q -p no:cacheprovider -x > "$D/pytest.txt" 2>&1; rc_t=$?
echo "demo clean rc=$rc_clean  demo mutated rc=$rc_mut  pytest rc=$rc_t ($(tail -1 $D/pytest.txt))"
cd /verif
RES=""
for C in $CHECKS; do
  VERIF_REPO="$D" VERIF_EVIDENCE_DIR="$D/.evidence" VERIF_REPLAY_DIR="$D/.replay" timeout 3000 ./check "$C" --tier quick > "$D/out_$C.txt" 2>&1
  rc=$?
  echo "check $C rc=$rc  $(grep -m1 -A1 -E '^VIOLATION' "$D/out_$C.txt" | tr '\n' ' ' | cut -c1-300)"
  [ $rc -eq 2 ] && grep -m3 HARNESS "$D/out_$C.txt" | cut -c1-300
  RES="$RES $C=$rc"
done
if [ $rc_clean -eq 0 ] && [ $rc_mut -ne 0 ] && [ $rc_t -eq 0 ]; then
  mkdir -p seeded/$NAME
  cp $OUT/patch$I.diff seeded/$NAME/patch.diff; cp $OUT/demo$I.py seeded/$NAME/demo.py; cp $OUT/notes$I.md seeded/$NAME/notes.md
  cat > seeded/$NAME/meta.json <<EOM
{"id": "$NAME", "property": "$P", "source": "independent sub-agent given only the property text and a scratch worktree",
 "needs": $(python3 -c "import json,sys; print(json.dumps(open('$OUT/notes$I.md').read()[:1500]))"),
 "confirmed": {"patch_applies": true, "pinned_suite_with_change": "passed", "demo_without_change_rc": $rc_clean, "demo_with_change_rc": $rc_mut,
   "how": "tools/seedcheck.sh $P $I (scratch rsync copy of /repo, patch -p1, pytest -x, demo before/after)"},
 "checks_run": "$RES"}
EOM
  echo "KEPT seeded/$NAME ($RES)"
else
  echo "NOT CONFIRMED: $NAME"
fi
rm -rf "$D"
