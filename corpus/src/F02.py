from datetime import datetime
from vlib.spec import ProjectSpec, Res, Task, Dep
# t1 09:00-12:00; t2 waits 2 minutes after t1 (starts 12:02 inside the 12:00 slot); t3 could use 12:00-12:02 but
# only starts after t2
CASE = ProjectSpec(start=datetime(2025, 1, 13), dur=(3, "w"), res_min=60,
    resources=[Res("r0")],
    tasks=[
        Task("t1", effort=("180", "min"), alloc=["r0"]),
        Task("t2", effort=("240", "min"), alloc=["r0"], deps=[Dep(("t1",), gap=(2, "min"))]),
        Task("t3", effort=("4", "h"), alloc=["r0"]),
    ])
