from datetime import datetime
from vlib.spec import ProjectSpec, Res, Task
CASE = ProjectSpec(start=datetime(2025, 1, 6), dur=(2, "w"), res_min=60,
    resources=[Res("r0")],
    tasks=[
        Task("a", effort=("90", "min"), alloc=["r0"], priority=900, sched="alap", end=datetime(2025, 1, 7, 12, 0)),
        Task("b", effort=("20", "min"), alloc=["r0"], start=datetime(2025, 1, 7, 10, 0)),
    ])
