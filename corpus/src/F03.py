from datetime import datetime
from vlib.spec import ProjectSpec, Res, Task, Scenario
# backward project: 'big' needs a longer horizon than 'plan'; the horizon is estimated from 'plan' only
CASE = ProjectSpec(start=datetime(2025, 1, 6), dur=(2, "w"), res_min=60, sched="alap",
    scenarios=[Scenario("plan", children=[Scenario("big")])],
    resources=[Res("r0"), Res("r1")],
    tasks=[
        Task("work", effort=("16", "h"), alloc=["r0"], overrides=[("big", "effort", "12000min", False)]),
        Task("handover", effort=("8", "h"), alloc=["r1"]),
    ])
