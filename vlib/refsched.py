"""Independent priority list scheduler for the core dialect (C07 reference, forward mode).

Implements the documented rule directly on the ProjectSpec and the independent calendar:
tasks are placed in order of priority (ties: declaration order) as soon as all predecessors are
placed; each task takes the earliest slots at or after its dependency bound in which all of its
resources are working, unbooked and within limits.  No scriptplan import.
"""
from __future__ import annotations

from collections import defaultdict
from dataclasses import dataclass
from datetime import datetime, timedelta
from fractions import Fraction
from typing import Optional

from .calendar_oracle import Calendar
from .spec import ProjectSpec


@dataclass
class Placed:
    scheduled: bool
    start: Optional[datetime] = None
    end: Optional[datetime] = None
    first: Optional[int] = None
    last: Optional[int] = None
    bound: Optional[datetime] = None
    competed: bool = False  # had to skip a slot because of a booking / limit / leave


class RefScheduler:
    def __init__(self, spec: ProjectSpec, horizon_end: datetime):
        self.spec = spec
        self.cal = Calendar(spec)
        self.gran = timedelta(minutes=spec.res_min)
        self.start = spec.start
        self.nslots = int((horizon_end - spec.start) / self.gran)  # slots 0..nslots (index of the end slot)
        self.tmap = spec.task_map()
        self.order = [p for p, _t in spec.iter_tasks()]
        self.rmap = spec.res_map()
        self.booked = defaultdict(dict)  # rid -> {slot: task path}
        self.placed = {}
        self.counters = {}  # (owner kind, owner id, limit index, rid or None) -> {period key: count}
        self._wcache = {}

    # -- helpers ---------------------------------------------------------------------------
    def slot_time(self, i):
        return self.start + i * self.gran

    def working(self, rid, i):
        k = (rid, i)
        v = self._wcache.get(k)
        if v is None:
            v = self._wcache[k] = self.cal.working(rid, self.slot_time(i))
        return v

    def priority(self, path):
        for k in range(len(path), 0, -1):
            t = self.tmap[path[:k]]
            if t.priority is not None:
                return t.priority
        return 500

    def edges(self, path):
        out = []
        for k in range(1, len(path) + 1):
            for d in self.tmap[path[:k]].deps:
                out.append(d)
        return out

    def is_scheduled(self, path):
        t = self.tmap.get(path)
        if t is None:
            return None  # unresolved reference: the dependency does not exist
        if t.children:
            return all(self.is_scheduled(path + (c.id,)) for c in t.children)
        pl = self.placed.get(path)
        return bool(pl and pl.scheduled)

    def dates(self, path):
        t = self.tmap[path]
        if not t.children:
            pl = self.placed.get(path)
            return (pl.start, pl.end) if pl and pl.scheduled else (None, None)
        ss, es = [], []
        for c in t.children:
            s, e = self.dates(path + (c.id,))
            if s is None:
                return (None, None)
            ss.append(s)
            es.append(e)
        return (min(ss), max(es))

    def period_key(self, name, i):
        t = self.slot_time(i)
        if name == "dailymax":
            return t.date()
        iso = t.isocalendar()
        return (iso[0], iso[1])

    def limit_slots(self, lim):
        return int(lim.seconds() / Fraction(int(self.gran.total_seconds())))

    def applicable_limits(self, path, members):
        """[(counter key, limit, number of members it counts)]"""
        out = []
        for rid in members:
            r, anc = self.rmap[rid]
            for owner in [r] + list(anc):
                for li, lim in enumerate(owner.limits):
                    out.append((("res", owner.id, li, None), lim, [rid]))
        for k in range(len(path), 0, -1):
            t = self.tmap[path[:k]]
            for li, lim in enumerate(t.limits):
                if lim.resources:
                    named = set()
                    for x in lim.resources:
                        named.update(self.spec.leaf_res_ids(x))
                    for rid in members:
                        if rid in named:
                            out.append((("task", path[:k], li, rid), lim, [rid]))
                else:
                    out.append((("task", path[:k], li, None), lim, list(members)))
        # merge entries that share a counter
        merged = {}
        for key, lim, rs in out:
            if key in merged:
                merged[key][1].extend(rs)
            else:
                merged[key] = [lim, list(rs)]
        return [(k, v[0], len(v[1])) for k, v in merged.items()]

    def limits_ok(self, lims, i):
        for key, lim, n in lims:
            cnt = self.counters.get(key, {}).get(self.period_key(lim.name, i), 0)
            if cnt + n > self.limit_slots(lim):
                return False
        return True

    def limits_inc(self, lims, i):
        for key, lim, n in lims:
            d = self.counters.setdefault(key, {})
            pk = self.period_key(lim.name, i)
            d[pk] = d.get(pk, 0) + n

    # -- the rule ----------------------------------------------------------------------------
    def run(self):
        leaves = [p for p in self.order if not self.tmap[p].children]
        # milestone pre-pass: milestones that carry their own date occupy nothing
        for p in leaves:
            t = self.tmap[p]
            if (t.milestone or t.effort is None) and t.start is not None:
                self.placed[p] = Placed(True, t.start, t.start, bound=t.start)
        todo = [p for p in leaves if p not in self.placed]
        todo.sort(key=lambda p: (-self.priority(p), self.order.index(p)))
        while todo:
            pick = None
            for p in todo:
                ready = True
                for d in self.edges(p):
                    s = self.is_scheduled(d.target)
                    if s is None:
                        continue
                    if not s:
                        ready = False
                        break
                if ready:
                    pick = p
                    break
            if pick is None:
                break  # deadlock: the rest stays unscheduled
            todo.remove(pick)
            self.placed[pick] = self.place(pick)
        for p in todo:
            self.placed[p] = Placed(False)
        return self.placed

    def bound_of(self, p):
        t = self.tmap[p]
        bound = self.start
        for k in range(len(p) - 1, 0, -1):  # nearest dated enclosing container: lower bound
            a = self.tmap[p[:k]]
            if a.start is not None:
                bound = max(bound, a.start)
                break
        for d in self.edges(p):
            if self.tmap.get(d.target) is None:
                continue
            s, e = self.dates(d.target)
            if s is None:
                continue
            b = (s if d.onstart else e) + d.gap_td()
            if b > bound:
                bound = b
        return bound

    def place(self, p):
        t = self.tmap[p]
        if t.milestone or t.effort is None:
            b = self.bound_of(p)
            return Placed(True, b, b, bound=b)
        bound = t.start if t.start is not None else self.bound_of(p)
        members = []
        for a in t.alloc:
            members.extend(self.spec.leaf_res_ids(a) if not self.rmap[a][0].children else [])
            if self.rmap[a][0].children:
                return Placed(False, bound=bound)  # a group cannot be booked
        eff = self.rmap[members[0]][0].efficiency()
        need = t.effort_min() / (Fraction(self.spec.res_min) * eff)
        if need.denominator != 1:
            raise ValueError("core dialect requires whole-slot efforts")
        need = int(need)
        off = bound - self.start
        i = int(off / self.gran)
        lims = self.applicable_limits(p, members)
        first = last = None
        took = 0
        competed = False
        while took < need:
            if i > self.nslots:
                return Placed(False, bound=bound, competed=competed)
            ok = all(self.working(r, i) for r in members)
            if ok and any(i in self.booked[r] for r in members):
                ok = False
                competed = True
            if ok and not self.limits_ok(lims, i):
                ok = False
                competed = True
            if ok:
                for r in members:
                    self.booked[r][i] = p
                self.limits_inc(lims, i)
                if first is None:
                    first = i
                last = i
                took += 1
            elif first is not None or self.slot_time(i) >= bound:
                pass
            i += 1
        return Placed(True, self.slot_time(first), self.slot_time(last + 1), first, last, bound, competed)
