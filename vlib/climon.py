"""`plan` subprocess harness (C19/C20): private cwd and TMPDIR, directory listings, optional strace monitor."""
from __future__ import annotations

import os
import shutil
import subprocess
import sys
import tempfile
from dataclasses import dataclass, field

from . import boot

RUNNER = os.path.join(boot.VERIF, "vlib", "run_plan.py")
SCRATCH = os.path.join(boot.VERIF, ".build", "cli_tmp")


@dataclass
class Run:
    rc: int
    out: bytes
    err: bytes
    cwd_after: list = field(default_factory=list)
    tmp_after: list = field(default_factory=list)
    trace: str = ""


def listing(d):
    out = []
    for root, dirs, files in os.walk(d):
        for n in sorted(dirs + files):
            out.append(os.path.relpath(os.path.join(root, n), d))
    return sorted(out)


class Sandbox:
    """A private working directory and TMPDIR for one or several invocations."""

    def __init__(self):
        os.makedirs(SCRATCH, exist_ok=True)
        self.root = tempfile.mkdtemp(prefix="sb_", dir=SCRATCH)
        self.cwd = os.path.join(self.root, "cwd")
        self.tmp = os.path.join(self.root, "tmp")
        os.makedirs(self.cwd)
        os.makedirs(self.tmp)

    def write(self, name, data: bytes):
        p = os.path.join(self.cwd, name)
        with open(p, "wb") as f:
            f.write(data)
        return p

    def env(self):
        e = dict(os.environ)
        e["TMPDIR"] = self.tmp
        e["PYTHONHASHSEED"] = "0"
        e["VERIF_REPO"] = boot.REPO
        e.pop("PYTHONPATH", None)
        return e

    def popen(self, args, stdin=None, strace_file=None):
        cmd = [sys.executable, RUNNER] + list(args)
        if strace_file:
            cmd = ["strace", "-f", "-qq", "-e", "trace=openat,open,creat,mkdir,unlink,unlinkat,rmdir,rename,renameat,renameat2", "-o", strace_file] + cmd
        return subprocess.Popen(cmd, cwd=self.cwd, env=self.env(), stdin=subprocess.PIPE if stdin is not None else subprocess.DEVNULL,
                                stdout=subprocess.PIPE, stderr=subprocess.PIPE)

    def run(self, args, stdin=None, timeout=120, strace=False) -> Run:
        sf = os.path.join(self.root, f"strace_{len(os.listdir(self.root))}.txt") if strace else None
        p = self.popen(args, stdin, sf)
        try:
            out, err = p.communicate(stdin, timeout=timeout)
        except subprocess.TimeoutExpired:
            p.kill()
            out, err = p.communicate()
            if timeout < 600:
                # wall-clock time under load is no verdict: try once more with a limit that only a hang exceeds
                return self.run(args, stdin=stdin, timeout=900, strace=strace)
            return Run(-9, out, err + b"\n[verif: timeout]", listing(self.cwd), listing(self.tmp))
        tr = ""
        if sf and os.path.exists(sf):
            with open(sf, errors="replace") as f:
                tr = f.read()
        return Run(p.returncode, out, err, listing(self.cwd), listing(self.tmp), tr)

    def close(self):
        shutil.rmtree(self.root, ignore_errors=True)


def have_strace() -> bool:
    try:
        p = subprocess.run(["strace", "-qq", "-e", "trace=none", "true"], capture_output=True, timeout=10)
        return p.returncode == 0
    except Exception:  # noqa: BLE001
        return False
