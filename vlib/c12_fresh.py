"""Fresh-process reference for C12: python c12_fresh.py <textfile> [mp]  -> prints the digest."""
import os
import sys

HERE = os.path.dirname(os.path.dirname(os.path.abspath(__file__)))
sys.path.insert(0, HERE)


def _work(path):
    from vlib import boot

    boot.use_repo()
    from vlib import c12_common

    with open(path) as f:
        text = f.read()
    return c12_common.text_digest(text, scratch_root=os.path.dirname(path))


if __name__ == "__main__":
    path = sys.argv[1]
    if len(sys.argv) > 2 and sys.argv[2] == "mp":
        import multiprocessing as mp

        with mp.get_context("spawn").Pool(1) as pool:
            print(pool.apply(_work, (path,)))
    else:
        print(_work(path))
