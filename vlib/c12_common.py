"""Digest of everything a user can observe for one project text (schedule + reports)."""
from __future__ import annotations

import contextlib
import hashlib
import io
import json
import os
import shutil
import tempfile


def project_digest(project, with_reports=True, scratch_root=None) -> str:
    h = hashlib.sha256()
    nsc = project.scenarioCount()
    for sc in range(nsc):
        for t in project.tasks:
            try:
                row = (t.fullId, bool(t.get("scheduled", sc)), str(t.get("start", sc)), str(t.get("end", sc)))
            except Exception as e:  # noqa: BLE001
                row = (t.fullId, "ERR", type(e).__name__)
            h.update(repr(row).encode())
        for r in project.resources:
            rs = r.data[sc] if r.data else None
            if rs is None:
                continue
            for slot in sorted(rs.slotTaskUsage):
                h.update(repr((r.fullId, slot, [(t.fullId, round(s, 3)) for t, s in rs.slotTaskUsage[slot]])).encode())
    if with_reports and len(list(project.reports)):
        from scriptplan.report import ReportContext

        out = tempfile.mkdtemp(prefix="c12_", dir=scratch_root)
        old = project.outputDir
        project.outputDir = out
        try:
            for rep in project.reports:
                ctx = ReportContext(project, rep)
                ctx.push()
                try:
                    with contextlib.redirect_stderr(io.StringIO()):
                        rep.generate()
                        h.update(json.dumps(rep.to_json(), sort_keys=True, default=str).encode())
                        h.update(repr(rep.to_csv()).encode())
                except Exception as e:  # noqa: BLE001
                    h.update(("REPORT-EXC " + type(e).__name__).encode())
                finally:
                    ctx.pop()
            for fn in sorted(os.listdir(out)):
                p = os.path.join(out, fn)
                if os.path.isfile(p):
                    with open(p, "rb") as f:
                        h.update(fn.encode() + hashlib.sha256(f.read()).digest())
        finally:
            project.outputDir = old
            shutil.rmtree(out, ignore_errors=True)
    return h.hexdigest()


def text_digest(text: str, scratch_root=None) -> str:
    """Parse + schedule + report a text in THIS process; rejected texts digest to their error type."""
    from vlib import observe

    err = io.StringIO()
    try:
        with contextlib.redirect_stderr(err):
            project = observe.parser().parse(text)
    except BaseException as e:  # noqa: BLE001
        if isinstance(e, KeyboardInterrupt):
            raise
        return "REJECTED:" + type(e).__name__
    with contextlib.redirect_stderr(err):
        return project_digest(project, scratch_root=scratch_root)
