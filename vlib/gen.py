"""Hypothesis strategies that build ProjectSpec values by construction (no filter / assume).

A Profile selects the dialect strata of DESIGN.md 3.1.  Everything random comes from
Hypothesis draws, so shrinking and replay work.
"""
from __future__ import annotations

from dataclasses import dataclass, field
from datetime import datetime, timedelta
from fractions import Fraction

from hypothesis import strategies as st

from .spec import Dep, Hours, Leave, Limit, ProjectSpec, Res, Scenario, Shift, Task

RESOLUTIONS = [5, 10, 15, 20, 30, 60]

# zones whose UTC offset (in and out of DST) is a multiple of the given resolution
ZONES_60 = [
    "America/New_York",
    "Europe/Berlin",
    "Asia/Tokyo",
    "America/Los_Angeles",
    "Pacific/Auckland",
    "Pacific/Kiritimati",  # +14
    "Etc/GMT+12",  # -12
    "Pacific/Apia",  # +13
    "Australia/Sydney",
    "America/Sao_Paulo",
    "UTC",
]
ZONES_30 = ZONES_60 + ["Asia/Kolkata", "Australia/Adelaide", "America/St_Johns", "Australia/Lord_Howe"]
ZONES_15 = ZONES_30 + ["Asia/Kathmandu", "Pacific/Chatham"]

# (zone, naive UTC instant of a DST transition) used to place project windows around a change
DST_ANCHORS = [
    ("America/New_York", datetime(2025, 3, 9, 7, 0)),
    ("America/New_York", datetime(2025, 11, 2, 6, 0)),
    ("Europe/Berlin", datetime(2025, 3, 30, 1, 0)),
    ("Europe/Berlin", datetime(2025, 10, 26, 1, 0)),
    ("Australia/Sydney", datetime(2025, 4, 5, 16, 0)),
    ("Australia/Sydney", datetime(2025, 10, 4, 16, 0)),
    ("Pacific/Auckland", datetime(2025, 9, 27, 14, 0)),
    ("America/Los_Angeles", datetime(2026, 3, 8, 10, 0)),
]

EFFS = ["0.5", "1", "2", "1.5", "0.25", "0.75", "1.25", "3", "4"]
EFFS_ODD = ["0.33", "0.67", "0.9", "1.1", "0.1", "2.37", "0.45", "1.75", "3.99", "0.61"]


@dataclass
class Profile:
    resolutions: list = field(default_factory=lambda: [60])
    min_tasks: int = 2
    max_tasks: int = 7
    max_res: int = 3
    depth: int = 1  # max nesting depth of the task tree (1 = flat)
    weeks: tuple = (2, 5)
    subslot: bool = False  # efforts that are not whole slots
    odd_eff: bool = False
    effs: bool = True
    max_slots: int = 10  # effort size in slots
    deps: float = 0.5  # probability that a task gets a dependency
    gaps: bool = True
    gap_units: tuple = ("min", "h")
    onstart: bool = True
    precedes: bool = True
    relrefs: bool = True
    container_deps: bool = False
    priorities: bool = True
    pins: bool = True
    milestones: bool = True
    leaves: bool = True
    glob_vac: bool = True
    glob_leaves: bool = False
    calendars: bool = False  # own hours / shifts
    zones: bool = False
    crossmid: bool = False
    dst: bool = False
    limits: bool = False
    task_limits: bool = False
    res_groups: bool = False
    teams: bool = True
    alternatives: bool = False
    alap_project: bool = False  # project-level 'scheduling alap' allowed
    alap_task: bool = False  # task-level alap with explicit end anchors
    scenarios: bool = False
    start_any: bool = False  # project start anywhere in 2020..2033 (else a few typical dates)
    chain: bool = False  # long chains on one resource (many tasks meeting in a slot)
    dated_containers: bool = False
    single_date_leaves: bool = True
    bookings: bool = True
    unaligned_pins: bool = False
    rates: bool = False
    day_efforts: bool = True
    start_tod: bool = False  # project start with a time of day (slot-aligned)
    alap_chains: bool = False  # task-level ALAP anchors may have predecessor chains (some of them declared alap without end)
    alap_always: bool = False  # with alap_project: every generated project is a backward project
    unequal_teams: bool = False  # teams whose members have different efficiencies (C12 only)
    year_end_holidays: bool = False  # global shutdown across New Year when the horizon contains one
    forward_refs: bool = True  # dependencies on tasks that are declared later in the file
    unsched: bool = False  # sprinkle unschedulable leaves: never-working resource, cycles, group allocations
    container_work: bool = False  # containers that carry effort / allocate themselves
    maxgap: bool = False  # some gapped edges carry maxgapduration instead of gapduration (C15 only)
    local_ids: bool = False  # children of different containers share local ids (c0, c1, ...); full paths stay unique
    dup_edges: bool = False  # the same pair of tasks connected by a depends and a precedes statement with different gaps
    durs: list = field(default_factory=list)  # explicit (n, unit) project lengths to sample from (overrides weeks)
    starts: list = field(default_factory=list)  # explicit project start dates to sample from


def _effort_whole(draw, res_min, eff: Fraction, max_slots, day_ok=True):
    """Effort text that is exactly k slots at efficiency eff."""
    k = draw(st.integers(1, max_slots))
    mins = Fraction(k * res_min) * eff
    # make it integral minutes by scaling k if needed
    mult = mins.denominator
    k *= mult
    mins = Fraction(k * res_min) * eff
    m = int(mins)
    choices = [(str(m), "min")]
    if m % 60 == 0:
        choices.append((str(m // 60), "h"))
    elif m % 30 == 0:
        choices.append((f"{m / 60:.1f}", "h"))
    if day_ok and m % 480 == 0:
        choices.append((str(m // 480), "d"))
    return draw(st.sampled_from(choices)), k


def _effort_sub(draw, res_min, max_slots):
    kind = draw(st.integers(0, 3))
    if kind == 0:  # arbitrary minutes (often prime)
        m = draw(st.sampled_from([1, 7, 13, 29, 31, 37, 59, 61, 97, 101, 127, 179, 211, 7 * res_min + 1]))
        m = min(m, max_slots * res_min)
        return (str(max(1, m)), "min")
    if kind == 1:
        m = draw(st.integers(1, max_slots * res_min))
        return (str(m), "min")
    if kind == 2:  # fraction of an hour
        x = draw(st.sampled_from(["0.1", "0.25", "0.3", "0.75", "1.2", "1.5", "2.25", "2.7", "3.3", "0.05"]))
        return (x, "h")
    return (str(draw(st.integers(1, max(1, max_slots * res_min // 60)))), "h")


def _hours(draw, res_min, crossmid: bool, listed_all: bool = False):
    """A slot-aligned working-hours table."""
    step = res_min
    nslots = 1440 // step
    table = {}
    ngroups = draw(st.integers(1, 2))
    days = list(range(7))
    if listed_all:
        first = days
    else:
        first = draw(st.sampled_from([[0, 1, 2, 3, 4], [0, 1, 2, 3, 4, 5, 6], [0, 2, 4], [1, 3], [5, 6], [0, 1, 2, 3], [6, 0, 1], [4, 5, 6, 0], [5, 6, 0], [6, 0]]))
    groups = [first]
    if ngroups == 2:
        rest = [d for d in days if d not in first]
        if rest:
            groups.append(rest[: draw(st.integers(1, len(rest)))])
    for g in groups:
        niv = draw(st.integers(1, 3))
        cuts = sorted(draw(st.lists(st.integers(0, nslots - 1), min_size=2 * niv, max_size=2 * niv, unique=True)))
        ivs = []
        for i in range(niv):
            s, e = cuts[2 * i] * step, cuts[2 * i + 1] * step
            ivs.append((s, e))
        if crossmid and draw(st.booleans()):
            # replace the last interval by one that crosses midnight; keep it disjoint from the
            # first interval of the following day by ending before any interval starts
            last_s = ivs[-1][0]
            first_s = ivs[0][0] if len(ivs) > 1 else last_s
            e = draw(st.integers(0, max(0, first_s // step)))
            ivs[-1] = (last_s, (e * step) % 1440)
            if len(ivs) == 1:
                ivs[-1] = (last_s, min(last_s, e * step))
        for d in g:
            table[d] = list(ivs)
    return Hours(table)


def _aligned_dt(draw, base: datetime, span_days: int, res_min: int, daytime: bool = False):
    d = draw(st.integers(0, max(0, span_days - 1)))
    if daytime:
        m = draw(st.integers(8 * 60 // res_min, 18 * 60 // res_min)) * res_min
    else:
        m = draw(st.integers(0, 1440 // res_min - 1)) * res_min
    out = base.replace(hour=0, minute=0) + timedelta(days=d, minutes=m)
    if out < base:  # the base (project start) may carry a time of day: never before it
        out += timedelta(days=1)
    return out


TYPICAL_STARTS = [
    datetime(2025, 1, 6),
    datetime(2025, 6, 2),
    datetime(2024, 2, 26),
    datetime(2025, 12, 29),
    datetime(2026, 12, 28),
    datetime(2025, 3, 3),
    datetime(2025, 10, 20),
    datetime(2025, 1, 8),  # Wednesday
    datetime(2025, 1, 11),  # Saturday
]


@st.composite
def project_specs(draw, pf: Profile):
    res_min = draw(st.sampled_from(pf.resolutions))
    zones = ZONES_60 if res_min == 60 else (ZONES_30 if res_min in (30, 10, 15, 5) and 30 % res_min == 0 else ZONES_60)
    if res_min in (15, 5):
        zones = ZONES_15
    if res_min == 20:
        zones = ZONES_60
    dst_zone = None
    if pf.dst and draw(st.booleans()):
        dst_zone, anchor = draw(st.sampled_from(DST_ANCHORS))
        start = (anchor - timedelta(days=draw(st.integers(1, 6)))).replace(hour=0, minute=0)
    elif pf.start_any:
        start = datetime(2020, 1, 1) + timedelta(days=draw(st.integers(0, 5000)))
    else:
        start = draw(st.sampled_from(TYPICAL_STARTS))
    if pf.starts and dst_zone is None:
        start = draw(st.sampled_from(pf.starts))
    if pf.start_tod and draw(st.booleans()):
        # the project (and with it every slot table and limit interval) begins in the middle of a day
        start = start.replace(hour=0, minute=0) + timedelta(minutes=res_min * draw(st.integers(1, 1440 // res_min - 1)))
    weeks = draw(st.integers(*pf.weeks))
    spec = ProjectSpec(start=start, dur=(weeks, "w"), res_min=res_min)
    span = weeks * 7
    if pf.durs:
        spec.dur = draw(st.sampled_from(pf.durs))
        span = max(2, min(60, (spec.end() - spec.start).days))
    if pf.alap_project and (pf.alap_always or draw(st.integers(0, 2)) == 0):
        spec.sched = "alap"

    # ---- global holidays ------------------------------------------------------------
    if pf.glob_vac and draw(st.integers(0, 3)) == 0:
        for _ in range(draw(st.sampled_from([1, 1, 2, 3]))):  # several holidays, declared in any order
            s = _aligned_dt(draw, start, min(span, 14), res_min).replace(hour=0, minute=0)
            if pf.single_date_leaves and draw(st.booleans()):
                spec.vacations.append(Leave("vacation", s, None))
            else:
                spec.vacations.append(Leave("vacation", s, s + timedelta(days=draw(st.integers(1, 3)))))
    if pf.year_end_holidays:
        # a shutdown that straddles New Year, if the horizon contains one
        for y in range(start.year, start.year + 2):
            ny = datetime(y + 1, 1, 1)
            if start < ny < start + timedelta(days=span) and draw(st.booleans()):
                a = ny - timedelta(days=draw(st.integers(1, 5)))
                b = ny + timedelta(days=draw(st.integers(1, 6)))
                if a >= start:
                    if draw(st.booleans()):
                        spec.vacations.append(Leave("vacation", a, b))
                    else:
                        spec.gleaves.append(Leave("leaves", a, b, ltype="holiday"))
                break
    if pf.glob_leaves and draw(st.integers(0, 3)) == 0:
        s = _aligned_dt(draw, start, min(span, 10), res_min).replace(hour=0, minute=0)
        e = None if draw(st.booleans()) else s + timedelta(days=draw(st.integers(1, 3)))
        spec.gleaves.append(Leave("leaves", s, e, ltype="holiday"))

    # ---- shifts ------------------------------------------------------------------
    if pf.calendars and draw(st.booleans()):
        for i in range(draw(st.integers(1, 2))):
            spec.shifts.append(Shift(f"sh{i}", _hours(draw, res_min, pf.crossmid)))

    # ---- resources ---------------------------------------------------------------
    nres = draw(st.integers(1, pf.max_res))
    leafs = []
    for i in range(nres):
        r = Res(f"r{i}")
        if pf.effs and draw(st.integers(0, 2)) > 0:
            pool = EFFS + (EFFS_ODD if pf.odd_eff else [])
            r.eff = draw(st.sampled_from(pool))
        if pf.rates and draw(st.booleans()):
            r.rate = draw(st.sampled_from(["10", "100", "72.5", "33.33", "250"]))
        if pf.calendars and draw(st.integers(0, 2)) > 0:
            if spec.shifts and draw(st.booleans()):
                r.shift = draw(st.sampled_from([s.id for s in spec.shifts]))
            else:
                r.hours = _hours(draw, res_min, pf.crossmid)
            if pf.zones and draw(st.booleans()):
                r.tz = dst_zone if (dst_zone and draw(st.booleans())) else draw(st.sampled_from(zones))
        if pf.leaves:
            for _ in range(draw(st.integers(0, 2))):
                kind = draw(st.sampled_from(["leaves", "vacation"] + (["booking"] if pf.bookings else [])))
                if kind == "booking":
                    s = _aligned_dt(draw, start, min(span, 12), res_min)
                    k = draw(st.integers(1, max(1, 600 // res_min)))
                    m = k * res_min
                    dur = (m // 60, "h") if m % 60 == 0 and draw(st.booleans()) else (m, "min")
                    if draw(st.integers(0, 4)) == 0:
                        dur = (draw(st.integers(1, 3)), "d")
                    r.leaves.append(Leave("booking", s, dur=dur, plus=draw(st.booleans())))
                else:
                    s = _aligned_dt(draw, start, min(span, 12), res_min)
                    if draw(st.booleans()):
                        s = s.replace(hour=0, minute=0)
                    if pf.single_date_leaves and draw(st.integers(0, 2)) == 0:
                        r.leaves.append(Leave(kind, s.replace(hour=0, minute=0), None, ltype=draw(st.sampled_from(["annual", "sick", "special"]))))
                    else:
                        e = s + timedelta(minutes=res_min * draw(st.integers(1, 3 * 1440 // res_min)))
                        if draw(st.booleans()):
                            e = (e + timedelta(days=1)).replace(hour=0, minute=0)
                        r.leaves.append(Leave(kind, s, e, ltype=draw(st.sampled_from(["annual", "sick", "unpaid"]))))
        if pf.limits and draw(st.integers(0, 1)) == 0:
            r.limits = _limits(draw, res_min)
        leafs.append(r)
    if pf.res_groups and nres >= 2 and draw(st.booleans()):
        g = Res("grp")
        k = draw(st.integers(2, nres))
        g.children = leafs[:k]
        if pf.limits and draw(st.booleans()):
            g.limits = _limits(draw, res_min)
        if pf.calendars and draw(st.booleans()):
            # the group declares the calendar; its members inherit it (they have none of their own)
            if spec.shifts and draw(st.booleans()):
                g.shift = draw(st.sampled_from([s.id for s in spec.shifts]))  # by reference instead of inline
            else:
                g.hours = _hours(draw, res_min, pf.crossmid)
            keep = draw(st.integers(0, len(g.children)))  # one member may keep a calendar of its own: the nearest statement wins
            for ci, c in enumerate(g.children):
                if ci == keep and (c.hours is not None or c.shift is not None):
                    continue
                c.hours = None
                c.shift = None
                if not pf.zones:
                    c.tz = None
            if pf.zones and draw(st.booleans()):
                # the group lives in a zone; members follow it, name another zone or go back to UTC explicitly
                g.tz = draw(st.sampled_from([z for z in zones if z != "UTC"]))
                for c in g.children:
                    z = draw(st.integers(0, 3))
                    if z == 0:
                        c.tz = "UTC"
                    elif z == 1:
                        c.tz = None
        rest = leafs[k:]
        if rest and draw(st.integers(0, 2)) == 0:
            # a second level: a department that holds the group and some more people
            dept = Res("dept")
            j = draw(st.integers(1, len(rest)))
            dept.children = [g] + rest[:j]
            if pf.limits and draw(st.integers(0, 3)) > 0:
                dept.limits = _limits(draw, res_min)
            spec.resources = [dept] + rest[j:]
        else:
            spec.resources = [g] + rest
    else:
        spec.resources = leafs
    rmap = {r.id: r for r in leafs}
    rids = [r.id for r in leafs]

    # ---- scenarios -----------------------------------------------------------------
    if pf.scenarios:
        nsc = draw(st.integers(1, 4))
        scs = [Scenario(x) for x in ["plan", "delayed", "worst", "best"][:nsc]]
        root = scs[0]
        for s in scs[1:]:
            parent = draw(st.sampled_from([root] + [c for c in root.children]))
            parent.children.append(s)
        spec.scenarios = [root]

    # ---- tasks -----------------------------------------------------------------------
    ntasks = draw(st.integers(pf.min_tasks, pf.max_tasks))
    if pf.chain and draw(st.booleans()):
        ntasks = draw(st.integers(pf.max_tasks, pf.max_tasks * 3))
    nodes = []  # (path, task) in declaration order
    containers = []  # (path, task)
    forward_project = spec.sched != "alap"
    for i in range(ntasks):
        t = Task(f"t{i}")
        # placement in the tree
        parent = None
        open_new = pf.depth > 1 and draw(st.integers(0, 9)) < (2 if pf.depth <= 3 else 4)
        if pf.depth > 1 and containers and not open_new and draw(st.integers(0, 3)) > 0:
            parent = draw(st.sampled_from(containers))
        elif open_new:
            # open a new container (possibly nested, preferring the deepest ones for deep profiles)
            cpar = None
            if containers and draw(st.integers(0, 3)) > 0:
                cpar = containers[-1] if (pf.depth > 3 and draw(st.booleans())) else draw(st.sampled_from(containers))
            if cpar is not None and len(cpar[0]) >= pf.depth - 1:
                cpar = None
            if True:
                c = Task(f"g{len(containers)}")
                cpath = (cpar[0] if cpar else ()) + (c.id,)
                (cpar[1].children if cpar else spec.tasks).append(c)
                containers.append((cpath, c))
                nodes.append((cpath, c))
                parent = (cpath, c)
        path = (parent[0] if parent else ()) + (t.id,)
        (parent[1].children if parent else spec.tasks).append(t)
        nodes.append((path, t))

        is_ms = pf.milestones and draw(st.integers(0, 7)) == 0
        if is_ms:
            t.milestone = True
        else:
            team = pf.teams and len(rids) >= 2 and draw(st.integers(0, 4)) == 0
            if pf.chain:
                alloc = [rids[0]] if draw(st.integers(0, 3)) > 0 else [draw(st.sampled_from(rids))]
            else:
                alloc = [draw(st.sampled_from(rids))]
            if team:
                others = [x for x in rids if x != alloc[0]]
                # equal efficiency teams only (C03 limits)
                same = [x for x in others if pf.unequal_teams or rmap[x].efficiency() == rmap[alloc[0]].efficiency()]
                if same:
                    alloc.append(draw(st.sampled_from(same)))
            t.alloc = alloc
            if pf.alternatives and len(alloc) == 1 and len(rids) >= 2 and draw(st.integers(0, 3)) == 0:
                others = [x for x in rids if x != alloc[0]]
                t.alt = draw(st.lists(st.sampled_from(others), min_size=1, max_size=min(2, len(others)), unique=True))
            eff = rmap[alloc[0]].efficiency()
            if pf.subslot and draw(st.integers(0, 3)) > 0:
                t.effort = _effort_sub(draw, res_min, pf.max_slots)
            else:
                t.effort, _k = _effort_whole(draw, res_min, eff, pf.max_slots, pf.day_efforts)
        if pf.priorities and draw(st.booleans()):
            t.priority = draw(st.sampled_from([1, 100, 250, 499, 500, 501, 750, 900, 1000, 0]))
        if pf.task_limits and not is_ms and draw(st.integers(0, 3)) == 0:
            qual = None
            if draw(st.integers(0, 2)) == 0:
                qual = list(t.alloc)
                if len(qual) > 1 and draw(st.booleans()):  # a limit that names only some members of the team
                    qual = sorted(draw(st.lists(st.sampled_from(qual), min_size=1, max_size=len(qual) - 1, unique=True)))
            t.limits = _limits(draw, res_min, resources=qual)

    leaves_ = [(p, t) for p, t in nodes if not t.children]
    # dependencies: only on earlier-declared tasks => DAG by construction
    order = {p: i for i, (p, _t) in enumerate(nodes)}
    # leaf-level precedence graph (container edges expand to all leaves below) keeps the
    # generated dependency structure acyclic by construction
    leaf_paths = [p for p, t in nodes if not t.children]

    def under(path):
        return [lp for lp in leaf_paths if lp[: len(path)] == path]

    succs = {lp: set() for lp in leaf_paths}

    def reaches(a, b):
        seen, stack = set(), [a]
        while stack:
            x = stack.pop()
            if x == b:
                return True
            if x in seen:
                continue
            seen.add(x)
            stack.extend(succs[x])
        return False

    def try_add_edge(pred, succ):
        """pred must finish before succ: returns False if that would close a cycle."""
        ps, ss = under(pred), under(succ)
        for b in ss:
            for a in ps:
                if a == b or reaches(b, a):
                    return False
        for a in ps:
            succs[a].update(ss)
        return True

    for idx, (p, t) in enumerate(nodes):
        is_container = bool(t.children)
        if is_container and not pf.container_deps:
            continue
        if draw(st.floats(0, 1)) >= pf.deps:
            continue
        pool = nodes[:idx]
        if pf.forward_refs and draw(st.integers(0, 3)) == 0:
            pool = nodes  # also tasks declared later (forward references); acyclicity is kept by try_add_edge
        cands = [(q, u) for q, u in pool if q != p and q != p[: len(q)] and p != q[: len(p)]]
        if not pf.container_deps:
            cands = [(q, u) for q, u in cands if not u.children]
        if not cands:
            continue
        for _ in range(draw(st.integers(1, 2))):
            q, u = draw(st.sampled_from(cands))
            if any(d.target == q for d in t.deps):
                continue
            if not try_add_edge(q, p):
                continue
            d = Dep(q)
            if pf.gaps and draw(st.integers(0, 2)) == 0:
                unit = draw(st.sampled_from(list(pf.gap_units)))
                if unit == "min":
                    n = draw(st.integers(1, 3 * 1440 // res_min)) * res_min if not pf.subslot else draw(st.integers(1, 4000))
                    d.gap = (n, "min")
                elif unit == "h":
                    if res_min == 60 or 60 % res_min == 0:
                        d.gap = (draw(st.integers(1, 72)), "h")
                    else:
                        d.gap = (draw(st.integers(1, 24)) * (res_min // 20 if res_min == 20 else 1), "h")
                elif unit in ("m", "y"):
                    d.gap = (1, unit)
                else:
                    d.gap = (draw(st.integers(1, 3)), unit)
            if pf.maxgap and d.gap and d.gap[1] in ("min", "h") and draw(st.integers(0, 3)) == 0:
                d.gapkind = "maxgapduration"  # (only compared between spellings: C15)
            if pf.onstart and forward_project and draw(st.integers(0, 5)) == 0:
                d.onstart = True
            if pf.precedes and not d.gap and not d.onstart and draw(st.integers(0, 3)) == 0:
                d.via = "precedes"
            if pf.relrefs and draw(st.booleans()):
                d.rel = True
            t.deps.append(d)
            if pf.dup_edges and not d.onstart and draw(st.integers(0, 3)) == 0:
                # the same ordered pair connected a second time, through the other keyword and with another gap:
                # both statements hold, the larger gap decides
                d2 = Dep(q, via="precedes" if d.via == "depends" else "depends", rel=d.rel)
                if d.gap is None or draw(st.booleans()):
                    n = draw(st.integers(1, 3 * 1440 // res_min)) * res_min if not pf.subslot else draw(st.integers(1, 4000))
                    d2.gap = (n, "min")
                t.deps.append(d2)

    if pf.unsched:
        if draw(st.booleans()):
            rz = Res("rz", leaves=[Leave("vacation", start - timedelta(days=1), start + timedelta(days=span + 1500))])
            spec.resources.append(rz)
            for p, t in leaves_:
                if t.alloc and draw(st.integers(0, 4)) == 0:
                    t.alloc = ["rz"]
                    t.alt = []
        if draw(st.booleans()):
            # a resource that leaves for good after the first days: its tasks start but cannot finish
            rw = Res("rw", leaves=[Leave("vacation", start + timedelta(days=draw(st.integers(1, 3))), start + timedelta(days=span + 1500))])
            spec.resources.append(rw)
            for p, t in leaves_:
                if t.alloc and t.alloc != ["rz"] and draw(st.integers(0, 4)) == 0:
                    t.alloc = ["rw"]
                    t.alt = []
                    t.effort = (str(draw(st.integers(30, 80))), "h")
        eff_leaves = [(p, t) for p, t in leaves_ if t.alloc]
        if len(eff_leaves) >= 2 and draw(st.integers(0, 2)) == 0:
            (pa, ta), (pb, tb) = eff_leaves[0], eff_leaves[-1]
            if pa != pb:
                ta.deps.append(Dep(pb))
                tb.deps.append(Dep(pa))
        if pf.res_groups and spec.resources and spec.resources[0].children and eff_leaves and draw(st.integers(0, 2)) == 0:
            eff_leaves[draw(st.integers(0, len(eff_leaves) - 1))][1].alloc = [spec.resources[0].id]
        if eff_leaves and draw(st.integers(0, 3)) == 0:
            p, t = eff_leaves[draw(st.integers(0, len(eff_leaves) - 1))]
            t.deps.append(Dep(("nosuchtask",)))
    if pf.container_work:
        for p, c in containers:
            if draw(st.integers(0, 2)) == 0:
                c.effort = (str(draw(st.integers(1, 6))), "h")
                c.alloc = [draw(st.sampled_from(rids))]

    # pinned starts (forward) on some leaves without dependencies
    if pf.pins and forward_project:
        for p, t in leaves_:
            if not t.deps and draw(st.integers(0, 6)) == 0:
                if pf.unaligned_pins and draw(st.booleans()):
                    t.start = _aligned_dt(draw, start, min(span, 10), res_min, daytime=True) + timedelta(minutes=draw(st.integers(1, res_min - 1)) if res_min > 1 else 0)
                else:
                    t.start = _aligned_dt(draw, start, min(span, 10), res_min, daytime=draw(st.booleans()))
    if pf.dated_containers and forward_project:
        for p, c in containers:
            if draw(st.integers(0, 2)) == 0:
                c.start = _aligned_dt(draw, start, min(span, 8), res_min, daytime=True)

    # ALAP shaping (C04/C08 statement): deadlines only on successor-less tasks and containers
    has_succ = set()
    for p, t in nodes:
        for d in t.deps:
            has_succ.add(d.target)
            for q, _u in nodes:  # everything below a targeted container has successors, too
                if q[: len(d.target)] == d.target:
                    has_succ.add(q)
    if spec.sched == "alap":
        for p, t in leaves_:
            if p not in has_succ and draw(st.integers(0, 2)) == 0:
                t.end = _aligned_dt(draw, start + timedelta(days=span // 2), max(1, span // 2 - 1), res_min, daytime=True)
        def has_outside_successor(cpath):
            for q, u in nodes:
                if q[: len(cpath)] == cpath:
                    continue
                qs = [q[:k] for k in range(1, len(q) + 1)]
                for anc in qs:
                    for d in dict(nodes)[anc].deps if anc in dict(nodes) else []:
                        if d.target[: len(cpath)] == cpath:
                            return True
            return False

        for p, c in containers:
            # (any nesting level: a dated container may sit below an undated one; one dated level per branch)
            if draw(st.integers(0, 3)) == 0 and not has_outside_successor(p) and not any(dict(nodes)[p[:k]].end is not None for k in range(1, len(p))):
                c.end = _aligned_dt(draw, start + timedelta(days=span // 2), max(1, span // 2 - 1), res_min, daytime=True)
    elif pf.alap_task:
        for p, t in leaves_:
            ok_deps = (not t.deps) or (pf.alap_chains and all(not d.onstart for d in t.deps))
            if p not in has_succ and ok_deps and t.start is None and not t.milestone and draw(st.integers(0, 3)) == 0:
                t.sched = "alap"
                t.end = _aligned_dt(draw, start + timedelta(days=span // 2), max(1, span // 2 - 1), res_min, daytime=True)
                if pf.alap_chains:
                    # some direct predecessors say 'scheduling alap' themselves (without a date)
                    tm_ = dict(nodes)
                    for d in t.deps:
                        q = tm_.get(d.target)
                        if q is not None and not q.children and q.start is None and not q.milestone and draw(st.booleans()):
                            q.sched = "alap"
    if pf.local_ids and draw(st.booleans()):
        _localise_ids(spec)
    return spec


def _localise_ids(spec):
    """Rename the children of every container to c0, c1, ... : tasks in different containers then share local ids
    (their full paths stay distinct).  All dependency targets are rewritten."""
    pmap = {}

    def rec(ts, old_prefix, new_prefix, inside):
        for i, t in enumerate(ts):
            old = old_prefix + (t.id,)
            nid = f"c{i}" if inside else t.id
            new = new_prefix + (nid,)
            pmap[old] = new
            rec(t.children, old, new, True)
            t.id = nid

    rec(spec.tasks, (), (), False)
    for _p, t in spec.iter_tasks():
        for d in t.deps:
            if d.target in pmap:
                d.target = pmap[d.target]


def _limits(draw, res_min, resources=None):
    out = []
    which = draw(st.sampled_from(["d", "w", "dw"]))
    if "d" in which:
        # whole slots mostly, sometimes a value that is not a whole number of slots
        k = draw(st.integers(1, max(1, 10 * 60 // res_min)))
        mins = k * res_min
        if draw(st.integers(0, 5)) == 0:
            mins += res_min // 2
        if draw(st.integers(0, 3)) == 0:  # the same value written in minutes
            out.append(Limit("dailymax", str(mins), "min", list(resources or [])))
        else:
            out.append(Limit("dailymax", _hours_txt(mins), "h", list(resources or [])))
    if "w" in which:
        k = draw(st.integers(1, max(1, 40 * 60 // res_min)))
        if draw(st.integers(0, 3)) == 0:
            out.append(Limit("weeklymax", str(k * res_min), "min", list(resources or [])))
        else:
            out.append(Limit("weeklymax", _hours_txt(k * res_min), "h", list(resources or [])))
    return out


def _hours_txt(mins: int) -> str:
    f = Fraction(mins, 60)
    if f.denominator == 1:
        return str(f.numerator)
    x = float(f)
    s = f"{x:.4f}".rstrip("0")
    return s
