"""Known findings: data in /verif/known_findings.json, matchers (code) here.

An *open* finding tolerates only violations whose kind and locus predicate match it; a *fixed*
entry suppresses nothing (its witness is an ordinary regression replay).  Nothing in here writes
the json file.
"""
from __future__ import annotations

import glob
import json
import os
import re

from . import boot

_PATH = os.path.join(boot.VERIF, "known_findings.json")
_CACHE = None


def load():
    global _CACHE
    if _CACHE is None:
        try:
            with open(_PATH) as f:
                _CACHE = json.load(f)
        except FileNotFoundError:
            _CACHE = {"findings": []}
    return _CACHE


def open_findings(prop):
    return [f for f in load()["findings"] if f.get("status") == "open" and f["property"] == prop]


def describe(fid):
    for f in load()["findings"]:
        if f["id"] == fid:
            return f"{f['id']}: {f['what']}"
    return fid


# named predicates over (violation, case) --------------------------------------------------
PREDICATES = {}


def predicate(name):
    def deco(fn):
        PREDICATES[name] = fn
        return fn

    return deco


def match(prop, v, case):
    """Return the id of the open finding that tolerates violation v, or None."""
    for f in open_findings(prop):
        m = f.get("match", {})
        if m.get("kind") and m["kind"] != v.kind:
            continue
        if m.get("locus_re") and not re.search(m["locus_re"], v.locus):
            continue
        if m.get("detail_re") and not re.search(m["detail_re"], v.detail):
            continue
        pn = m.get("predicate")
        if pn:
            fn = PREDICATES.get(pn)
            if fn is None or not fn(v, case):
                continue
        return f["id"]
    return None


def replay_corpus(prop, mod, tier, total, violations, known_lines):
    """Replay /verif/corpus/<prop>/*.json.  Regression cases (fixed defects, seeded-mutant
    catches) must be clean; witnesses of open findings print their KNOWN-FINDING line."""
    from . import engine
    from . import spec as S

    files = sorted(glob.glob(os.path.join(boot.VERIF, "corpus", prop, "*.json")))
    camps = {c.name: c for c in mod.campaigns(tier)}
    n = 0
    reproduced = set()
    for fn in files:
        with open(fn) as f:
            v = json.load(f)
        camp = camps.get(v.get("campaign"))
        if camp is None or camp.evaluate is None:
            continue
        case = S.loads(v["case_b64"])
        r = engine.guarded(getattr(mod, "replay_evaluate", None) or camp.evaluate, case)
        total.record(r)
        n += 1
        unknown, known = engine._split(r.violations, prop, case)
        reproduced.update(known)
        for k in known:
            total.known_hits[k] += 1
        if unknown:
            violations.append(engine._viol_payload(prop, camp.name, case, unknown, 0, -1, r.sample))
    for f in open_findings(prop):
        tag = "" if f["id"] in reproduced else " (witness not replayed in this run)"
        known_lines.append(f"KNOWN-FINDING: property={prop} {f['id']}: {f['what']}{tag}")
    return {"files": len(files), "replayed": n}


# ---- predicates -------------------------------------------------------------------------
def _backward_closure(spec):
    """Paths of leaf tasks that are scheduled backward: declared ALAP (project, own or container
    level) plus, transitively, the predecessors of ALAP tasks that carry an explicit end."""
    from . import rules

    tmap = spec.task_map()
    back = {p for p, t in spec.iter_tasks() if not t.children and rules.explicit_backward(spec, p)}
    edges = rules.all_edges(spec)
    changed = True
    while changed:
        changed = False
        for p in list(back):
            for e in edges.get(p, []):
                q = e[0]
                if q in tmap and q not in back:
                    if tmap[q].start is not None and not rules.explicit_backward(spec, q):
                        continue  # an ASAP task with a fixed start keeps its mode and ends the propagation
                    back.add(q)
                    changed = True
    return back


@predicate("mixed_modes_in_slot")
def _mixed_modes_in_slot(v, case):
    tasks = [tuple(x) for x in v.data.get("tasks", [])]
    if not tasks or not hasattr(case, "iter_tasks"):
        return False
    back = _backward_closure(case)
    nb = sum(1 for p in tasks if p in back)
    return 0 < nb < len(tasks)


@predicate("foreign_edge_inside_slot")
def _foreign_edge_inside_slot(v, case):
    return bool(v.data.get("foreign_edge_inside"))


@predicate("team_surplus_in_slot")
def _team_surplus_in_slot(v, case):
    return bool(v.data.get("team_surplus")) and v.kind.startswith("idle_part_of_slot")


@predicate("later_scenario_other_horizon")
def _later_scenario_other_horizon(v, case):
    return bool(v.data.get("horizon_differs")) and int(v.data.get("scenario_index", 0)) > 0
