"""Shared, spec-derived facts used by several oracles (edges, modes, helper predicates)."""
from __future__ import annotations

from datetime import timedelta

from .observe import EPS, Observation, ScenObs, slot_time, task_slots
from .spec import ProjectSpec


def all_edges(spec: ProjectSpec):
    """path -> list of (pred_path, gap timedelta, onstart, kind) for own + inherited edges.

    kind in {'own', 'inherited'} x via; 'precedes' edges are stored on the successor already."""
    tmap = spec.task_map()
    out = {}
    for p, t in spec.iter_tasks():
        es = []
        for d in t.deps:
            es.append((d.target, d.gap_td(), d.onstart, "own-" + d.via + ("-rel" if d.rel else ""), d))
        for k in range(1, len(p)):
            anc = tmap[p[:k]]
            for d in anc.deps:
                es.append((d.target, d.gap_td(), d.onstart, "inherited-" + d.via, d))
        out[p] = es
    return out


def leaf_paths(spec: ProjectSpec):
    return [p for p, t in spec.iter_tasks() if not t.children]


def explicit_backward(spec: ProjectSpec, path) -> bool:
    """Backward mode as *declared* (project level or nearest explicit task/container level)."""
    tmap = spec.task_map()
    for k in range(len(path), 0, -1):
        t = tmap[path[:k]]
        if t.sched:
            return t.sched == "alap"
    return spec.sched == "alap"


def slot_bounds(obs: Observation, idx: int):
    a = slot_time(obs, idx)
    return a, a + timedelta(seconds=obs.gran)


def booked_span(sc: ScenObs, path):
    """(first_slot, last_slot, {slot: max seconds over resources}) of real bookings, or None."""
    per = task_slots(sc, path)
    if not per:
        return None
    slots = {}
    for rid, d in per.items():
        for s, sec in d.items():
            slots[s] = max(slots.get(s, 0.0), sec)
    return min(slots), max(slots), slots


def text_key(text: str) -> str:
    return text
