"""Entry wrapper: the real `plan` console-script code (scriptplan.cli.plan:main) from the tree
under test, in the implementation configuration chosen by VERIF_IMPL (default: rebuilt)."""
import os
import sys

sys.path.insert(0, os.path.dirname(os.path.dirname(os.path.abspath(__file__))))
from vlib import boot  # noqa: E402

boot.use_repo()
sys.argv[0] = "plan"
from scriptplan.cli.plan import main  # noqa: E402

main()
