"""Independent working-time calendar, computed from the ProjectSpec alone.

Written from the TaskJuggler syntax reference and the statement of C02; shares no code with
scriptplan (no import of it).  All instants are naive UTC datetimes (the project zone is UTC).
"""
from __future__ import annotations

from datetime import datetime, timedelta, timezone
from functools import lru_cache
from zoneinfo import ZoneInfo

from .spec import Hours, ProjectSpec

UTC = timezone.utc


@lru_cache(maxsize=64)
def _zone(name):
    return ZoneInfo(name)


def local_of(t: datetime, tz):
    """Naive UTC instant -> naive local wall-clock time of zone tz (None: UTC)."""
    if not tz:
        return t
    return t.replace(tzinfo=UTC).astimezone(_zone(tz)).replace(tzinfo=None)


def in_hours(h: Hours, local: datetime) -> bool:
    wd = local.weekday()
    m = local.hour * 60 + local.minute
    for s, e in h.table.get(wd, []):
        if e > s:
            if s <= m < e:
                return True
        else:  # crosses midnight: [s, 24:00) today ...
            if m >= s:
                return True
    for s, e in h.table.get((wd - 1) % 7, []):
        if e <= s and m < e:  # ... and [00:00, e) on the following day
            return True
    return False


def default_hours(local: datetime) -> bool:
    return local.weekday() < 5 and 9 * 60 <= local.hour * 60 + local.minute < 17 * 60


class Calendar:
    def __init__(self, spec: ProjectSpec):
        self.spec = spec
        self.rmap = spec.res_map()
        self.shifts = spec.shift_map()
        self.glob = [lv.interval() for lv in list(spec.vacations) + list(spec.gleaves)]
        self._leaves = {}
        for rid, (r, anc) in self.rmap.items():
            ivs = []
            for x in [r] + list(anc):  # leaves are inherited from enclosing resource groups
                ivs.extend(lv.interval() for lv in x.leaves)
            self._leaves[rid] = ivs

    def blocked(self, rid: str, t: datetime) -> bool:
        for s, e in self.glob:
            if s <= t < e:
                return True
        for s, e in self._leaves[rid]:
            if s <= t < e:
                return True
        return False

    def on_hours(self, rid: str, t: datetime) -> bool:
        r, anc = self.rmap[rid]
        # own statement wins; otherwise the nearest enclosing group that declares something
        for x in [r] + list(reversed(anc)):
            if x.hours is not None or x.shift is not None or x.tz is not None:
                break
        else:
            x = r
        tz = None
        for y in [r] + list(reversed(anc)):
            if y.tz:
                tz = y.tz
                break
        hours = None
        for y in [r] + list(reversed(anc)):
            if y.shift is not None:
                hours = self.shifts[y.shift].hours
                break
            if y.hours is not None:
                hours = y.hours
                break
        if hours is None:
            return default_hours(t)  # project default, project (UTC) time
        return in_hours(hours, local_of(t, tz))

    def working(self, rid: str, t: datetime) -> bool:
        return (not self.blocked(rid, t)) and self.on_hours(rid, t)

    def feature_between(self, rid: str, a: datetime, b: datetime, step: timedelta) -> bool:
        t = a
        while t < b:
            if not self.working(rid, t):
                return True
            t += step
        return False
