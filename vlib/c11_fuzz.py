"""libFuzzer (atheris) target for C11: parse + schedule with the semantic oracle inside the target.

Internal errors are bucketed and written to $VERIF_C11_FINDS (one file per bucket, smallest input wins);
the target never raises, so one campaign enumerates several root causes.
"""
import hashlib
import json
import os
import sys

HERE = os.path.dirname(os.path.dirname(os.path.abspath(__file__)))
sys.path.insert(0, HERE)
from vlib import boot  # noqa: E402

boot.ensure_deps(need_atheris=True)
import atheris  # noqa: E402

boot.use_repo()
with atheris.instrument_imports(include=["scriptplan"]):
    import scriptplan.parser.tjp_parser  # noqa: F401,E402
    import scriptplan.core.project  # noqa: F401,E402
    import scriptplan.core.task_scenario  # noqa: F401,E402
    import scriptplan.core.resource_scenario  # noqa: F401,E402
    import scriptplan.parser.macro_processor  # noqa: F401,E402

from vlib.props import C11  # noqa: E402

FINDS = os.environ.get("VERIF_C11_FINDS", "/tmp/c11_finds")
os.makedirs(FINDS, exist_ok=True)
STATS = {"outcomes": {}, "nontrivial_keys": [], "samples": []}
_seen = {}
_count = [0]


def flush():
    with open(os.path.join(FINDS, "stats.json"), "w") as f:
        json.dump(STATS, f)


def one_input(data: bytes):
    try:
        text = data.decode("utf-8")
    except UnicodeDecodeError:
        text = data.decode("latin-1")
    if "effort" in text and len(text) > 3000:
        return
    obs, _cpu = C11.guarded_observe(text, C11.CPU_LIMIT)
    _count[0] += 1
    if obs is None:
        outcome, vs = "timeout", [C11.Violation("cpu_bound_exceeded", "project", "CPU bound exceeded in the fuzz target", {"bucket": "timeout"})]
    else:
        outcome, vs = C11.classify(text, obs)
    STATS["outcomes"][outcome] = STATS["outcomes"].get(outcome, 0) + 1
    if outcome == "accepted_infeasible" or (outcome == "rejected" and "{" in text):
        k = hashlib.sha1(data).hexdigest()[:16]
        if len(STATS["nontrivial_keys"]) < 5000:
            STATS["nontrivial_keys"].append(k)
        if len(STATS["samples"]) < 2 and outcome == "accepted_infeasible":
            STATS["samples"].append(text[:800])
    for v in vs:
        b = v.data.get("bucket", v.locus)
        if b not in _seen or len(text) < _seen[b]:
            _seen[b] = len(text)
            name = "bucket_" + hashlib.sha1(b.encode()).hexdigest()[:12] + ".json"
            with open(os.path.join(FINDS, name), "w") as f:
                json.dump({"kind": v.kind, "bucket": b, "detail": v.detail, "text": text}, f)
    if _count[0] % 200 == 0:
        flush()


def main():
    import atexit

    atexit.register(flush)
    atheris.Setup(sys.argv, one_input)
    try:
        atheris.Fuzz()
    finally:
        flush()


if __name__ == "__main__":
    main()
