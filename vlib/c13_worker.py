"""Worker for C13: computes a result vector in ONE implementation configuration.

usage: python -m vlib.c13_worker <impl> <job.json> <out.json>
The configuration (pure / rebuilt / tree) is fixed before scriptplan is imported.
"""
from __future__ import annotations

import json
import math
import os
import sys
from datetime import datetime, timedelta


def families():
    """Interval families for one weekday table: list of dict weekday -> [((h,m),(h,m)), ...]."""
    def hm(m):
        m %= 1440
        return (m // 60, m % 60)

    day_sets = [
        [0, 1, 2, 3, 4],
        [0, 1, 2, 3, 4, 5, 6],
        [0, 2, 4],
        [5, 6],
        [6, 0],
        [3],
    ]
    interval_sets = [
        [],
        [(540, 1020)],
        [(0, 0)],
        [(0, 1440 % 1440)],
        [(495, 705), (795, 990)],
        [(360, 600), (600, 840)],  # touching
        [(1320, 360)],  # cross-midnight
        [(1320, 0)],
        [(1080, 120), (480, 720)],
        [(0, 1), (1439, 0)],
        [(60, 61), (120, 180), (1200, 30)],
        [(720, 720)],
        [(1, 1439)],
    ]
    out = []
    for ds in day_sets:
        for iv in interval_sets:
            tbl = {d: [(hm(a), hm(b)) for a, b in iv] for d in ds}
            out.append(tbl)
    # mixed tables: different intervals on different days, previous-day cross-midnight onto an unlisted / listed day
    out.append({0: [((22, 0), (6, 0))], 1: [((9, 0), (17, 0))]})
    out.append({6: [((15, 0), (3, 0))], 0: [((8, 0), (0, 0))], 2: []})
    out.append({4: [((22, 0), (6, 0))]})
    out.append({0: [((0, 0), (0, 10))], 1: [((0, 0), (0, 10)), ((23, 50), (0, 5))]})
    return out


def job_onshift(job):
    from scriptplan.core.project import Project
    from scriptplan.core.working_hours import WorkingHours

    step = job["step"]
    fams = families()
    res = []
    for zone, start in ((None, datetime(2025, 1, 6)), ("Asia/Kolkata", datetime(2025, 1, 6)), ("America/Los_Angeles", datetime(2025, 3, 3)), ("Europe/Berlin", datetime(2025, 10, 20))):
        prj = Project("p", "P", "")
        prj["start"] = start
        prj["end"] = start + timedelta(days=8)
        prj["timingresolution"] = 60
        for fi in job["fams"]:
            wh = WorkingHours(prj)
            wh._hours = {k: list(v) for k, v in fams[fi].items()}
            wh._custom_hours_set = True
            bits = []
            for m in range(0, 10080 + 1440, step):
                bits.append("1" if wh.onShift(m, timezone=zone) else "0")
            res.append([f"onshift fam{fi} zone={zone}", "".join(bits)])
            if zone is None:
                res.append([f"daily fam{fi}", repr([wh.get_daily_hours(d) for d in range(7)])])
    return res


def _call(fn, *a):
    try:
        return repr(fn(*a))
    except IndexError:
        return "IndexError"
    except Exception as e:  # noqa: BLE001
        return type(e).__name__


def job_conv(job):
    from scriptplan.core.project import Project
    from scriptplan.scheduler.scoreboard import Scoreboard

    res = []
    one = timedelta(seconds=1)
    for r, st_s, ln in job["windows"]:
        st = datetime.fromisoformat(st_s)
        gran = r * 60
        g = timedelta(seconds=gran)
        end = st + timedelta(seconds=ln)
        sb = Scoreboard(st, end, gran)
        prj = Project("p", "P", "")
        prj["start"] = st
        prj["end"] = end
        prj["timingresolution"] = gran
        out = [str(sb.size)]
        size = sb.size
        idxs = list(range(-5, min(size, 400) + 6)) + ([size - 2, size - 1, size, size + 1, size + 5] if size > 400 else [])
        if size > 100000:  # long window: probe the whole length, densest where single-precision seconds run out
            idxs += sorted({(size * k) // 97 + j for k in range(1, 97) for j in (0, 1, 2)})
        for i in idxs:
            out.append(_call(sb.idxToDate, i))
            out.append(_call(sb.idxToDate, i, True))
            out.append(_call(prj.idxToDate, i))
            base = st + i * g
            for t in (base, base + one, base + g - one, base - one):
                out.append(_call(sb.dateToIdx, t, False))
                out.append(_call(sb.dateToIdx, t, True))
                out.append(_call(prj.dateToIdx, t))
        res.append([f"conv res{r} {st_s} +{ln}s", "|".join(out)])
    return res


def job_ci(job):
    from scriptplan.scheduler.scoreboard import Scoreboard
    from scriptplan.utils.time import TimeInterval

    res = []
    st = datetime(2025, 1, 6, 9, 0)
    for n, bits in job["patterns"]:
        pattern = [bool(bits >> k & 1) for k in range(n)]
        r = 60 * [5, 15, 60][bits % 3]
        g = timedelta(seconds=r)
        sb = Scoreboard(st, st + (n - 1) * g, r)
        for i, v in enumerate(pattern[: sb.size]):
            sb[i] = v
        out = []
        for s in range(0, n):
            for e in range(s, n):
                for mdur in (0, r, 2 * r, 3 * r, r + r // 2):
                    try:
                        got = sb.collectIntervals(TimeInterval(st + s * g, st + e * g), mdur, lambda x: bool(x))
                        out.append(",".join(f"{int((iv.start - st) / g)}-{int((iv.end - st) / g)}" for iv in got))
                    except Exception as ex:  # noqa: BLE001
                        out.append(type(ex).__name__)
        res.append([f"ci n{n} bits{bits}", ";".join(out)])
    return res


def job_projects(job):
    from vlib import observe

    res = []
    for i, text in enumerate(job["texts"]):
        o = observe.observe(text)
        if not o.ok:
            res.append([f"project {i}", "EXC " + o.exc_bucket])
            continue
        lines = []
        for sc in o.scen:
            for t in sc.tasks:
                lines.append(f"{'.'.join(t.path)} {t.scheduled} {t.start} {t.end}")
            for rid in sorted(sc.ledger):
                for slot in sorted(sc.ledger[rid]):
                    lines.append(f"{rid} {slot} " + ",".join(f"{'.'.join(p)}={s!r}" for p, s in sc.ledger[rid][slot]))
        res.append([f"project {i}", "\n".join(lines)])
    return res


def main():
    impl, jobfile, outfile = sys.argv[1:4]
    os.environ["VERIF_IMPL"] = impl
    here = os.path.dirname(os.path.dirname(os.path.abspath(__file__)))
    sys.path.insert(0, here)
    from vlib import boot

    boot.use_repo(impl)
    with open(jobfile) as f:
        job = json.load(f)
    fn = {"onshift": job_onshift, "conv": job_conv, "ci": job_ci, "projects": job_projects}[job["kind"]]
    res = fn(job)
    with open(outfile, "w") as f:
        json.dump({"impl": boot.impl_name(), "native": boot.native_status(), "results": res}, f)


if __name__ == "__main__":
    main()
