"""ProjectSpec: the checker's own model of a project, and its renderer to .tjp text.

Oracles read the spec (true dependency targets, true calendars, true efforts); scriptplan only
ever sees the rendered text.  Nothing here imports scriptplan.
"""
from __future__ import annotations

import base64
import pickle
from dataclasses import dataclass, field
from datetime import datetime, timedelta
from fractions import Fraction
from typing import Optional

DAYS = ["mon", "tue", "wed", "thu", "fri", "sat", "sun"]

# TaskJuggler effort units with the default 8 h day / 5 day week.
EFFORT_UNIT_MIN = {"min": 1, "h": 60, "d": 480, "w": 2400}
# calendar duration units (gapduration, booking length)
DUR_UNIT_MIN = {"min": 1, "h": 60, "d": 1440, "w": 10080, "m": 43200, "y": 525600}  # m/y: fixed 30 d / 365 d (only C14 generates them; it does not interpret them)


@dataclass
class Hours:
    """weekday (0=Mon) -> list of (start_minute, end_minute); end <= start crosses midnight."""

    table: dict = field(default_factory=dict)

    def groups(self):
        """Group weekdays with identical interval lists (one workinghours statement each)."""
        out = []
        for wd in range(7):
            iv = self.table.get(wd)
            if not iv:
                continue
            for g in out:
                if g[1] == iv:
                    g[0].append(wd)
                    break
            else:
                out.append(([wd], iv))
        return out


@dataclass
class Shift:
    id: str
    hours: Hours


@dataclass
class Leave:
    kind: str  # 'leaves' | 'vacation' | 'booking'
    start: datetime
    end: Optional[datetime] = None  # None: single date (leaves/vacation)
    ltype: str = "annual"
    dur: Optional[tuple] = None  # booking: (n, unit)
    plus: bool = True  # booking written with '+'

    def interval(self):
        """[s, e) as TaskJuggler defines it."""
        if self.kind == "booking":
            n, u = self.dur
            return self.start, self.start + timedelta(minutes=n * DUR_UNIT_MIN[u])
        if self.end is None:
            return self.start, self.start + timedelta(days=1)
        return self.start, self.end


@dataclass
class Limit:
    name: str  # dailymax | weeklymax
    hours: str  # textual number, e.g. '6', '2.5'
    unit: str = "h"
    resources: list = field(default_factory=list)  # task limits only

    def seconds(self) -> Fraction:
        mult = {"h": 3600, "min": 60, "d": 8 * 3600}[self.unit]
        return Fraction(self.hours) * mult


@dataclass
class Res:
    id: str
    eff: Optional[str] = None  # textual, e.g. '0.5'
    rate: Optional[str] = None
    tz: Optional[str] = None
    hours: Optional[Hours] = None
    shift: Optional[str] = None
    leaves: list = field(default_factory=list)
    limits: list = field(default_factory=list)
    children: list = field(default_factory=list)

    def efficiency(self) -> Fraction:
        return Fraction(self.eff) if self.eff is not None else Fraction(1)


@dataclass
class Dep:
    target: tuple  # path of the predecessor task
    gap: Optional[tuple] = None  # (n, unit)
    onstart: bool = False
    via: str = "depends"  # 'depends' (written on the successor) | 'precedes' (written on the predecessor)
    rel: bool = False  # write the reference relative ('!'-style)
    gapkind: str = "gapduration"

    def gap_td(self) -> timedelta:
        if not self.gap:
            return timedelta(0)
        n, u = self.gap
        return timedelta(minutes=n * DUR_UNIT_MIN[u])


@dataclass
class Task:
    id: str
    effort: Optional[tuple] = None  # (textual number, unit)
    milestone: bool = False
    alloc: list = field(default_factory=list)
    alt: list = field(default_factory=list)
    priority: Optional[int] = None
    deps: list = field(default_factory=list)
    start: Optional[datetime] = None
    end: Optional[datetime] = None
    sched: Optional[str] = None  # 'asap' | 'alap'
    limits: list = field(default_factory=list)
    children: list = field(default_factory=list)
    overrides: list = field(default_factory=list)  # (scenario id, attr, value, before_plain)
    flags: list = field(default_factory=list)
    extra: list = field(default_factory=list)  # raw attribute lines (hostile dialect)
    name: Optional[str] = None

    def effort_min(self) -> Optional[Fraction]:
        if self.effort is None:
            return None
        n, u = self.effort
        return Fraction(n) * EFFORT_UNIT_MIN[u]


@dataclass
class Scenario:
    id: str
    children: list = field(default_factory=list)


@dataclass
class ReportDef:
    id: str
    name: Optional[str]
    columns: list
    formats: list = field(default_factory=list)
    timeformat: Optional[str] = None
    leafonly: Optional[bool] = None
    title_cols: dict = field(default_factory=dict)


@dataclass
class ProjectSpec:
    start: datetime
    dur: tuple = (4, "w")
    res_min: int = 60
    id: str = "prj"
    sched: Optional[str] = None  # 'alap' => project level backward mode
    scenarios: list = field(default_factory=list)
    vacations: list = field(default_factory=list)  # global: Leave(kind='vacation')
    gleaves: list = field(default_factory=list)  # global leaves: Leave(kind='leaves', ltype='holiday')
    shifts: list = field(default_factory=list)
    resources: list = field(default_factory=list)
    tasks: list = field(default_factory=list)
    reports: list = field(default_factory=list)
    timeformat: Optional[str] = None
    extra_header: list = field(default_factory=list)

    # ---- navigation helpers -------------------------------------------------
    def iter_tasks(self):
        """(path, task, parent_path) in declaration (pre-)order."""

        def rec(ts, prefix):
            for t in ts:
                p = prefix + (t.id,)
                yield p, t
                yield from rec(t.children, p)

        yield from rec(self.tasks, ())

    def task_map(self):
        return {p: t for p, t in self.iter_tasks()}

    def iter_res(self):
        def rec(rs, prefix, anc):
            for r in rs:
                p = prefix + (r.id,)
                yield p, r, anc
                yield from rec(r.children, p, anc + [r])

        yield from rec(self.resources, (), [])

    def res_map(self):
        """flat id -> (res, ancestors); resource ids are globally unique in TaskJuggler."""
        return {r.id: (r, anc) for _p, r, anc in self.iter_res()}

    def leaf_res_ids(self, rid):
        r, _ = self.res_map()[rid]
        if not r.children:
            return [r.id]
        out = []
        for c in r.children:
            out.extend(self.leaf_res_ids(c.id))
        return out

    def shift_map(self):
        return {s.id: s for s in self.shifts}

    def end(self) -> datetime:
        n, u = self.dur
        if u == "d":
            return self.start + timedelta(days=n)
        if u == "w":
            return self.start + timedelta(weeks=n)
        if u == "m":
            y, m = divmod(self.start.month - 1 + n, 12)
            return _clamp_date(self.start, self.start.year + y, m + 1)
        if u == "y":
            return _clamp_date(self.start, self.start.year + n, self.start.month)
        raise ValueError(u)

    def scenario_ids(self):
        out = []

        def rec(scs):
            for s in scs:
                out.append(s.id)
                rec(s.children)

        rec(self.scenarios)
        return out or ["plan"]

    def scenario_parent(self):
        par = {}

        def rec(scs, p):
            for s in scs:
                par[s.id] = p
                rec(s.children, s.id)

        rec(self.scenarios, None)
        return par


def _clamp_date(base: datetime, year: int, month: int) -> datetime:
    import calendar

    day = min(base.day, calendar.monthrange(year, month)[1])
    return base.replace(year=year, month=month, day=day)


# ---------------------------------------------------------------------------------------
# rendering
# ---------------------------------------------------------------------------------------
def fmt_date(d: datetime) -> str:
    if d.hour == 0 and d.minute == 0:
        return d.strftime("%Y-%m-%d")
    return d.strftime("%Y-%m-%d-%H:%M")


def fmt_hm(m: int) -> str:
    m %= 1440
    return f"{m // 60:02d}:{m % 60:02d}"


def render_hours(h: Hours, indent: str, compact_ranges: bool = True) -> list:
    lines = []
    for wds, ivs in h.groups():
        # write consecutive weekdays as a range when possible
        wrap = None
        if compact_ranges and 1 < len(wds) < 7 and wds != list(range(wds[0], wds[-1] + 1)):
            # a run that wraps around the end of the week (sat, sun, mon): TaskJuggler writes 'sat - mon'
            for k in range(1, len(wds)):
                run = wds[k:] + wds[:k]
                if all((run[i + 1] - run[i]) % 7 == 1 for i in range(len(run) - 1)):
                    wrap = run
                    break
        if compact_ranges and len(wds) > 1 and wds == list(range(wds[0], wds[-1] + 1)):
            days = f"{DAYS[wds[0]]} - {DAYS[wds[-1]]}"
        elif wrap:
            days = f"{DAYS[wrap[0]]} - {DAYS[wrap[-1]]}"
        else:
            days = ", ".join(DAYS[w] for w in wds)
        rng = ", ".join(f"{fmt_hm(s)} - {fmt_hm(e)}" for s, e in ivs)
        lines.append(f"{indent}workinghours {days} {rng}")
    return lines


def render_limits(lims: list, indent: str) -> list:
    if not lims:
        return []
    parts = []
    for lm in lims:
        q = ""
        if lm.resources:
            q = " { resources " + ", ".join(lm.resources) + " }"
        parts.append(f"{lm.name} {lm.hours}{lm.unit}{q}")
    return [f"{indent}limits {{ " + " ".join(parts) + " }"]


def render_leave(lv: Leave, indent: str, glob: bool = False) -> str:
    if lv.kind == "booking":
        n, u = lv.dur
        return f'{indent}booking "blk" {fmt_date(lv.start)} {"+" if lv.plus else ""}{n}{u}'
    rng = fmt_date(lv.start) + (f" - {fmt_date(lv.end)}" if lv.end is not None else "")
    if lv.kind == "vacation":
        if glob:
            return f'{indent}vacation "hol" {rng}'
        return f"{indent}vacation {rng}"
    if glob:
        return f'{indent}leaves {lv.ltype} "hol" {rng}'
    return f"{indent}leaves {lv.ltype} {rng}"


@dataclass
class Spelling:
    """How a spec is written down; the meaning never depends on it (used by C15)."""

    idmap: dict = field(default_factory=dict)  # ('task', path) / ('res', id) / ('shift', id) -> new local id
    inline_shifts: set = field(default_factory=set)  # resource ids whose shift reference is replaced by inline hours
    flip: set = field(default_factory=set)  # (succ_path, dep_index): write via the *other* keyword
    rel_flip: set = field(default_factory=set)  # (succ_path, dep_index): toggle relative/absolute
    noise: int = 0  # comment / whitespace noise level (0..3)
    crlf: bool = False
    macros: int = 0  # number of macro extractions (0..2)
    flip_gaps: bool = False  # also move edges that carry a gapduration to the other keyword


def _tid(sp: Optional[Spelling], path: tuple) -> str:
    if sp and ("task", path) in sp.idmap:
        return sp.idmap[("task", path)]
    return path[-1]


def _rid(sp: Optional[Spelling], rid: str) -> str:
    if sp and ("res", rid) in sp.idmap:
        return sp.idmap[("res", rid)]
    return rid


def _sid(sp: Optional[Spelling], sid: str) -> str:
    if sp and ("shift", sid) in sp.idmap:
        return sp.idmap[("shift", sid)]
    return sid


def _full(sp, path):
    return ".".join(_tid(sp, path[: i + 1]) for i in range(len(path)))


def ref_to(sp, frm: tuple, target: tuple, rel: bool) -> str:
    """Reference from the task at path `frm` to `target`."""
    if not rel:
        return _full(sp, target)
    # relative: '!' * k climbs k levels from `frm` (k=1: siblings), then a path below that scope
    common = 0
    while common < min(len(frm) - 1, len(target) - 1) and frm[common] == target[common]:
        common += 1
    ups = len(frm) - common  # number of '!' needed
    rest = ".".join(_tid(sp, target[: i + 1]) for i in range(common, len(target)))
    return "!" * ups + rest


def render(spec: ProjectSpec, sp: Optional[Spelling] = None) -> str:
    L = []
    n, u = spec.dur
    L.append(f'project {spec.id} "P" {fmt_date(spec.start)} +{n}{u} {{')
    if spec.res_min != 60 or (sp and sp.noise >= 2):
        if spec.res_min % 60 == 0:
            L.append(f"  timingresolution {spec.res_min // 60}h")
        else:
            L.append(f"  timingresolution {spec.res_min}min")
    if spec.timeformat:
        L.append(f'  timeformat "{spec.timeformat}"')
    if spec.sched:
        L.append(f"  scheduling {spec.sched}")
    for x in spec.extra_header:
        L.append("  " + x)

    def rsc(scs, ind):
        for s in scs:
            if s.children:
                L.append(f'{ind}scenario {s.id} "{s.id}" {{')
                rsc(s.children, ind + "  ")
                L.append(f"{ind}}}")
            else:
                L.append(f'{ind}scenario {s.id} "{s.id}"')

    rsc(spec.scenarios, "  ")
    L.append("}")
    for v in spec.vacations:
        L.append(render_leave(v, "", glob=True))
    for v in spec.gleaves:
        L.append(render_leave(v, "", glob=True))
    for sh in spec.shifts:
        L.append(f'shift {_sid(sp, sh.id)} "{sh.id}" {{')
        L.extend(render_hours(sh.hours, "  "))
        L.append("}")
    shifts = spec.shift_map()

    def rres(rs, ind):
        for r in rs:
            L.append(f'{ind}resource {_rid(sp, r.id)} "{r.id}" {{')
            i2 = ind + "  "
            if r.eff is not None:
                L.append(f"{i2}efficiency {r.eff}")
            if r.rate is not None:
                L.append(f"{i2}rate {r.rate}")
            if r.tz:
                L.append(f'{i2}timezone "{r.tz}"')
            if r.shift:
                if sp and r.id in sp.inline_shifts:
                    L.extend(render_hours(shifts[r.shift].hours, i2))
                else:
                    L.append(f"{i2}workinghours {_sid(sp, r.shift)}")
            if r.hours is not None:
                L.extend(render_hours(r.hours, i2))
            for lv in r.leaves:
                L.append(render_leave(lv, i2))
            L.extend(render_limits(r.limits, i2))
            rres(r.children, i2)
            L.append(f"{ind}}}")

    rres(spec.resources, "")

    # dependency statements: decide where each edge is written
    tmap = spec.task_map()
    dep_lines = {p: [] for p in tmap}  # path -> list of (keyword, text)
    for p, t in spec.iter_tasks():
        for i, d in enumerate(t.deps):
            via = d.via
            rel = d.rel
            if sp and (p, i) in sp.flip and not d.onstart and (not d.gap or sp.flip_gaps):
                via = "precedes" if via == "depends" else "depends"
            if sp and (p, i) in sp.rel_flip:
                rel = not rel
            opts = []
            if d.gap:
                opts.append(f"{d.gapkind} {d.gap[0]}{d.gap[1]}")
            if d.onstart:
                opts.append("onstart")
            o = (" { " + " ".join(opts) + " }") if opts else ""
            if via == "depends":
                dep_lines[p].append(("depends", ref_to(sp, p, d.target, rel) + o))
            else:
                if d.target in dep_lines:
                    dep_lines[d.target].append(("precedes", ref_to(sp, d.target, p, rel) + o))
                else:  # dangling target (hostile dialect): keep it as a depends
                    dep_lines[p].append(("depends", ref_to(sp, p, d.target, rel) + o))

    def rtask(ts, prefix, ind):
        for t in ts:
            p = prefix + (t.id,)
            L.append(f'{ind}task {_tid(sp, p)} "{t.name or t.id}" {{')
            i2 = ind + "  "
            for sc, attr, val, before in t.overrides:
                if before:
                    L.append(f"{i2}{sc}:{attr} {val}")
            if t.effort is not None:
                L.append(f"{i2}effort {t.effort[0]}{t.effort[1]}")
            if t.milestone:
                L.append(f"{i2}milestone")
            if t.alloc:
                a = ", ".join(_rid(sp, x) for x in t.alloc)
                if t.alt:
                    a += " { alternative " + ", ".join(_rid(sp, x) for x in t.alt) + " }"
                L.append(f"{i2}allocate {a}")
            if t.priority is not None:
                L.append(f"{i2}priority {t.priority}")
            if t.sched:
                L.append(f"{i2}scheduling {t.sched}")
            if t.start is not None:
                L.append(f"{i2}start {fmt_date(t.start)}")
            if t.end is not None:
                L.append(f"{i2}end {fmt_date(t.end)}")
            for kw, txt in dep_lines[p]:
                L.append(f"{i2}{kw} {txt}")
            lims = t.limits
            if sp:
                lims = [Limit(l.name, l.hours, l.unit, [_rid(sp, x) for x in l.resources]) for l in lims]
            L.extend(render_limits(lims, i2))
            if t.flags:
                L.append(f"{i2}flags " + ", ".join(t.flags))
            for x in t.extra:
                L.append(i2 + x)
            for sc, attr, val, before in t.overrides:
                if not before:
                    L.append(f"{i2}{sc}:{attr} {val}")
            rtask(t.children, p, i2)
            L.append(f"{ind}}}")

    rtask(spec.tasks, (), "")
    for rp in spec.reports:
        nm = f' "{rp.name}"' if rp.name is not None else ""
        L.append(f"taskreport {rp.id}{nm} {{")
        if rp.formats:
            L.append("  formats " + ", ".join(rp.formats))
        cols = []
        for c in rp.columns:
            if c in rp.title_cols:
                cols.append(f'{c} {{ title "{rp.title_cols[c]}" }}')
            else:
                cols.append(c)
        L.append("  columns " + ", ".join(cols))
        if rp.timeformat is not None:
            L.append(f'  timeformat "{rp.timeformat}"')
        if rp.leafonly is not None:
            L.append(f"  leaftasksonly {'true' if rp.leafonly else 'false'}")
        L.append("}")
    text = "\n".join(L) + "\n"
    if sp and (sp.noise or sp.macros):
        text = _decorate(text, sp)
    if sp and sp.crlf:
        text = text.replace("\n", "\r\n")
    return text


def _decorate(text: str, sp: Spelling) -> str:
    """Comments / whitespace / macro extraction.  Pure text rewrites that TaskJuggler defines as
    meaning-preserving; deterministic in the Spelling."""
    lines = text.split("\n")
    out = []
    macros = []
    k = 0
    skip = set()
    for i, ln in enumerate(lines):
        if i in skip:
            continue
        s = ln.strip()
        if sp.macros and len(macros) < sp.macros and (s.startswith("depends ") or s.startswith("allocate ") or s.startswith("effort ")):
            # move this attribute line into a macro (every other candidate, deterministic)
            k += 1
            if k % 2 == 1:
                name = f"mx{len(macros)}"
                if len(macros) % 2 == 1 and i + 1 < len(lines) and lines[i + 1].strip().startswith(("allocate ", "priority ", "milestone")):
                    # two-line macro body with a comment between the statements
                    nxt = lines[i + 1].strip()
                    macros.append(f"macro {name} [\n  {s} // first\n  # second\n  {nxt}\n]")
                    out.append(ln[: len(ln) - len(s)] + "${" + name + "}")
                    skip.add(i + 1)
                elif len(macros) % 3 == 0 and sp.noise >= 2 and i + 1 < len(lines) and lines[i + 1].strip() and not lines[i + 1].strip().startswith(("task ", "}")):
                    # body that ends in a '//' comment, call followed by the next statement on the same line, and a
                    # commented-out earlier version of the macro with another body
                    nxt = lines[i + 1].strip()
                    macros.append(f"macro {name} [ {s} // as agreed\n]\n# macro {name} [ effort 99d ]\n// macro {name} [ milestone ]")
                    out.append(ln[: len(ln) - len(s)] + "${" + name + "} " + nxt)
                    skip.add(i + 1)
                else:
                    macros.append(f"macro {name} [\n  {s}\n]")
                    out.append(ln[: len(ln) - len(s)] + "${" + name + "}")
                continue
        if sp.noise >= 1 and s and i % 3 == 0:
            out.append(ln + "  # note " + str(i))
        elif sp.noise >= 2 and s and i % 3 == 1:
            out.append(ln + "  // c" + str(i))
        elif sp.noise >= 3 and s and i % 3 == 2:
            out.append("/* blk\n " + str(i) + " */ " + ln.replace("  ", "\t"))
        else:
            out.append(ln)
        if sp.noise >= 2 and i % 4 == 3:
            out.append("")
    res = "\n".join(out)
    if macros:
        res = "\n".join(macros) + "\n" + res
    return res


# ---------------------------------------------------------------------------------------
# (de)serialisation for replay files
# ---------------------------------------------------------------------------------------
def dumps(obj) -> str:
    return base64.b64encode(pickle.dumps(obj, protocol=4)).decode("ascii")


def loads(s: str):
    return pickle.loads(base64.b64decode(s.encode("ascii")))
