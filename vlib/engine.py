"""Campaign engine: shards, seeds, classification, shrinking, replay files, evidence."""
from __future__ import annotations

import hashlib
import importlib
import json
import multiprocessing as mp
import os
import sys
import time
import traceback
from collections import Counter
from dataclasses import dataclass, field
from typing import Any, Callable, Optional

from . import boot

boot.ensure_deps()

VERIF = boot.VERIF
NPROC = min(16, os.cpu_count() or 1)


# ---------------------------------------------------------------------------------------
@dataclass
class Violation:
    kind: str
    locus: str
    detail: str = ""
    data: dict = field(default_factory=dict)  # structured facts for known-finding predicates

    def __str__(self):
        return f"{self.kind} @ {self.locus}: {self.detail}"


@dataclass
class Result:
    """What evaluate(case) returns."""

    violations: list = field(default_factory=list)
    nontrivial: bool = False
    key: str = ""  # canonical text of the case; hashed for distinctness
    classes: list = field(default_factory=list)
    sample: Any = None  # human-readable form (only kept for the first few non-trivial cases)
    excluded: list = field(default_factory=list)  # names of exclusion switches that fired
    weight: int = 1  # number of individual evaluations this case stands for (grid cases)
    nt_keys: list = field(default_factory=list)  # additional distinct non-trivial sub-cases (grid cases)


@dataclass
class Campaign:
    name: str
    kind: str  # 'hyp' | 'enum' | 'custom'
    evaluate: Optional[Callable] = None  # case -> Result
    strategy: Optional[Callable] = None  # () -> hypothesis strategy              (hyp)
    n: int = 0  # total examples over all shards                                  (hyp)
    items: Optional[Callable] = None  # (shard, nshards) -> iterable of cases      (enum)
    run: Optional[Callable] = None  # (seed, shard, nshards, n) -> ShardOut        (custom)
    shards: int = NPROC
    exhaustive: bool = False
    floor_nontrivial: float = 0.0  # minimum fraction of non-trivial cases, else exit 2
    shrink: bool = True
    describe: str = ""
    post: Optional[Callable] = None  # (out, seed, shard) -> None, runs in the worker after the campaign (e.g. confirm timeouts)


def guarded(fn, case):
    """evaluate(case); an exception that escapes from the tree under test (innermost frames inside scriptplan) while a
    check drives its API directly is a finding about that code, not a harness error."""
    try:
        return fn(case)
    except Exception as e:  # noqa: BLE001
        import traceback

        tb = traceback.extract_tb(e.__traceback__)
        if not tb or "/scriptplan/" not in tb[-1].filename.replace("\\", "/"):
            raise
        from . import observe

        r = Result(key="exception " + repr(case)[:300])
        r.violations = [Violation("unexpected_exception", observe.bucket_of(e), f"{type(e).__name__}: {str(e)[:200]}", {"bucket": observe.bucket_of(e)})]
        r.nontrivial = True
        return r


@dataclass
class ShardOut:
    evaluations: int = 0
    cases: int = 0
    keys: set = field(default_factory=set)
    classes: Counter = field(default_factory=Counter)
    samples: list = field(default_factory=list)
    known_hits: Counter = field(default_factory=Counter)
    excluded: Counter = field(default_factory=Counter)
    violation: Optional[dict] = None  # {'violations': [...], 'case_b64': ..., 'text': ...}
    error: str = ""
    notes: list = field(default_factory=list)

    def record(self, r: Result):
        self.evaluations += max(1, r.weight)
        self.cases += 1
        for k in r.nt_keys:
            self.keys.add(hashlib.sha1(k.encode("utf-8", "replace")).hexdigest()[:16])
        for c in r.classes:
            self.classes[c] += 1
        for x in r.excluded:
            self.excluded[x] += 1
        if r.nontrivial:
            k = hashlib.sha1(r.key.encode("utf-8", "replace")).hexdigest()[:16]
            if k not in self.keys:
                self.keys.add(k)
                if len(self.samples) < 2 and r.sample is not None:
                    self.samples.append(r.sample)


class Found(Exception):
    pass


def _split(vs, prop, case):
    """Partition violations into (unknown, known-finding ids)."""
    from . import findings

    unknown, known = [], []
    for v in vs:
        fid = findings.match(prop, v, case)
        if fid:
            known.append(fid)
        else:
            unknown.append(v)
    return unknown, known


def _viol_payload(prop, camp_name, case, vs, seed, shard, sample=None):
    from . import spec as S

    return {
        "property": prop,
        "campaign": camp_name,
        "violations": [{"kind": v.kind, "locus": v.locus, "detail": v.detail} for v in vs],
        "seed": seed,
        "shard": shard,
        "sample": sample,
        "case_b64": S.dumps(case),
    }


def _load_prop(prop: str):
    return importlib.import_module(f"vlib.props.{prop}")


def _run_shard(args):
    prop, camp_name, tier, seed, shard, nshards = args
    out = ShardOut()
    try:
        mod = _load_prop(prop)
        camp = {c.name: c for c in mod.campaigns(tier)}[camp_name]
        if camp.kind == "hyp":
            _run_hyp(prop, camp, seed, shard, nshards, out)
            if camp.post is not None:
                camp.post(out, seed, shard)
        elif camp.kind == "enum":
            for case in camp.items(shard, nshards):
                r = guarded(camp.evaluate, case)
                out.record(r)
                unknown, known = _split(r.violations, prop, case)
                for k in known:
                    out.known_hits[k] += 1
                if unknown and out.violation is None:
                    out.violation = _viol_payload(prop, camp.name, case, unknown, seed, shard, r.sample)
                    break
        else:
            camp.run(seed, shard, nshards, out, camp.n)
    except BaseException as e:  # noqa: BLE001
        if isinstance(e, KeyboardInterrupt):
            raise
        out.error = "".join(traceback.format_exception(type(e), e, e.__traceback__))[-4000:]
    return out


def _run_hyp(prop, camp, seed, shard, nshards, out: ShardOut):
    import hypothesis
    from hypothesis import HealthCheck, Phase, given, settings

    n = max(1, camp.n // nshards)
    state = {"last": None}

    phases = [Phase.generate] + ([Phase.shrink] if camp.shrink else [])

    @hypothesis.seed(seed * 1000 + shard)
    @settings(
        max_examples=n,
        database=None,
        deadline=None,
        report_multiple_bugs=False,
        phases=phases,
        suppress_health_check=list(HealthCheck),
        print_blob=False,
    )
    @given(camp.strategy())
    def test(case):
        r = guarded(camp.evaluate, case)
        out.record(r)
        unknown, known = _split(r.violations, prop, case)
        for k in set(known):
            out.known_hits[k] += 1
        if unknown:
            state["last"] = (case, unknown, r.sample)
            raise Found(str(unknown[0]))

    try:
        test()
    except Found:
        case, unknown, sample = state["last"]
        out.violation = _viol_payload(prop, camp.name, case, unknown, seed, shard, sample)
    except hypothesis.errors.Flaky as e:  # a non-reproducible failure is a harness problem
        out.error = "Flaky: " + str(e)[:2000]


# ---------------------------------------------------------------------------------------
def run_property(prop: str, tier: str, seed: int) -> int:
    """Run every campaign of a property; write evidence; return the process exit code."""
    from . import findings

    t0 = time.time()
    mod = _load_prop(prop)
    camps = mod.campaigns(tier)
    total = ShardOut()
    per_camp = {}
    violations = []
    errors = []

    # 1. regression / witness corpus
    known_lines = []
    corpus_note = findings.replay_corpus(prop, mod, tier, total, violations, known_lines)

    # 2. campaigns
    ctx = mp.get_context("fork")
    jobs = []
    for c in camps:
        ns = max(1, min(c.shards, NPROC, c.n if c.kind == "hyp" else c.shards))
        for k in range(ns):
            jobs.append((prop, c.name, tier, seed, k, ns))
    results = []
    if jobs:
        with ctx.Pool(min(NPROC, len(jobs))) as pool:
            asyncs = [(j, pool.apply_async(_run_shard, (j,))) for j in jobs]
            limit = float(os.environ.get("VERIF_SHARD_TIMEOUT", "7200" if tier == "thorough" else "1500"))
            for j, a in asyncs:
                try:
                    results.append((j, a.get(timeout=max(1.0, limit - (time.time() - t0)))))
                except mp.TimeoutError:
                    errors.append(f"shard {j[1]}#{j[4]} exceeded the safety timeout ({limit}s): inconclusive")
            pool.terminate()
    for j, so in results:
        cname = j[1]
        pc = per_camp.setdefault(cname, ShardOut())
        for tgt in (pc, total):
            tgt.evaluations += so.evaluations
            tgt.cases += so.cases
            tgt.keys |= so.keys
            tgt.classes.update(so.classes)
            tgt.known_hits.update(so.known_hits)
            tgt.excluded.update(so.excluded)
            for s in so.samples:
                if len(tgt.samples) < 3:
                    tgt.samples.append(s)
            tgt.notes.extend(so.notes)
        if so.error:
            errors.append(f"{cname}#{j[4]}: {so.error}")
        if so.violation:
            violations.append(so.violation)

    # 3. verdict
    rc = 0
    replay_paths = []
    for v in violations:
        d = os.path.join(os.environ.get("VERIF_REPLAY_DIR") or os.path.join(VERIF, "replay"), prop)
        os.makedirs(d, exist_ok=True)
        h = hashlib.sha1(json.dumps(v, sort_keys=True, default=str).encode()).hexdigest()[:12]
        path = os.path.join(d, f"{v.get('campaign', 'x')}_{h}.json")
        with open(path, "w") as f:
            json.dump(v, f, indent=1, default=str)
        rel = os.path.relpath(path, VERIF) if path.startswith(VERIF) else path
        replay_paths.append(rel)
        first = v["violations"][0]
        print(f"VIOLATION property={prop} replay={rel}")
        print(f"  {first['kind']} @ {first['locus']}: {first['detail'][:400]}")
        rc = 1
    for ln in known_lines:
        print(ln)
    exhaustive = bool(camps) and all(c.exhaustive for c in camps)
    floor_fail = []
    for c in camps:
        pc = per_camp.get(c.name)
        if pc and c.floor_nontrivial and pc.cases and not violations:
            frac = len(pc.keys) / pc.cases
            if frac < c.floor_nontrivial:
                floor_fail.append(f"{c.name}: non-trivial fraction {frac:.3f} < floor {c.floor_nontrivial}")
    if (errors or floor_fail) and rc == 0:
        rc = 2
    for e in errors + floor_fail:
        print("HARNESS-ERROR:", e, file=sys.stderr)

    ev = {
        "property_id": prop,
        "tier": tier,
        "seed": seed,
        "level": "exploration",
        "coverage": {
            "evaluations": total.evaluations,
            "distinct_nontrivial": len(total.keys),
            "rule": getattr(mod, "RULE", ""),
            "samples": total.samples[:3] or ["(no non-trivial sample)"],
            "exhaustive": exhaustive,
            "classes": dict(total.classes.most_common(60)),
            "campaigns": {
                k: {
                    "evaluations": v.evaluations,
                    "distinct_nontrivial": len(v.keys),
                    "describe": next((c.describe for c in camps if c.name == k), ""),
                    "exhaustive": next((c.exhaustive for c in camps if c.name == k), False),
                }
                for k, v in per_camp.items()
            },
            "known_finding_hits": dict(total.known_hits),
            "excluded_by_construction": dict(total.excluded),
            "corpus": corpus_note,
            "notes": total.notes[:20],
            "replay_files": replay_paths,
            "harness_errors": (errors + floor_fail)[:5],
            "tree_under_test": boot.REPO,
        },
        "assumptions": getattr(mod, "ASSUMPTIONS", []),
        "wall_s": round(time.time() - t0, 2),
        "violations": len(violations),
    }
    evdir = os.environ.get("VERIF_EVIDENCE_DIR") or os.path.join(VERIF, "evidence")
    os.makedirs(evdir, exist_ok=True)
    with open(os.path.join(evdir, f"{prop}.json"), "w") as f:
        json.dump(ev, f, indent=1, default=str)
    print(
        f"{prop} tier={tier} seed={seed}: evaluations={total.evaluations} distinct_nontrivial={len(total.keys)} "
        f"violations={len(violations)} known_hits={sum(total.known_hits.values())} wall={ev['wall_s']}s rc={rc}"
    )
    return rc


def replay(prop: str, path: str) -> int:
    from . import findings
    from . import spec as S

    mod = _load_prop(prop)
    with open(path) as f:
        v = json.load(f)
    camps = {c.name: c for c in mod.campaigns("quick")}
    camp = camps.get(v.get("campaign")) or next(iter(camps.values()))
    case = S.loads(v["case_b64"])
    ev = getattr(mod, "replay_evaluate", None) or camp.evaluate
    r = guarded(ev, case)
    unknown, known = _split(r.violations, prop, case)
    for k in set(known):
        print(f"KNOWN-FINDING: property={prop} {findings.describe(k)}")
    if unknown:
        print(f"VIOLATION property={prop} replay={path}")
        for u in unknown[:5]:
            print("  ", u)
        return 1
    print(f"{prop} replay {path}: no violation")
    return 0
