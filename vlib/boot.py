"""Bootstrap: dependency check, tree-under-test selection, implementation configurations.

Every check imports this first.  It
  * makes sure hypothesis (and optionally atheris) are importable, installing them offline
    from /opt/veriftools/wheels into /verif/.deps when they are not,
  * puts the tree under test (VERIF_REPO, default /repo) first on sys.path so that the
    *current working tree* is what gets imported, shadowing the editable install,
  * offers helpers to force the three implementation configurations of DESIGN.md 2.2.
"""
from __future__ import annotations

import importlib
import importlib.abc
import importlib.machinery
import importlib.util
import os
import subprocess
import sys

VERIF = os.path.dirname(os.path.dirname(os.path.abspath(__file__)))
REPO = os.environ.get("VERIF_REPO", "/repo")
DEPS = os.path.join(VERIF, ".deps")
WHEELS = "/opt/veriftools/wheels"
PY = sys.executable


def _pip_install(pkg: str) -> None:
    os.makedirs(DEPS, exist_ok=True)
    subprocess.run(
        [PY, "-m", "pip", "install", "--quiet", "--no-index", "--find-links", WHEELS, "--target", DEPS, pkg],
        check=False,
        stdout=subprocess.DEVNULL,
        stderr=subprocess.DEVNULL,
    )


def ensure_deps(need_atheris: bool = False) -> None:
    if DEPS not in sys.path:
        sys.path.append(DEPS)
    try:
        import hypothesis  # noqa: F401
    except ImportError:
        _pip_install("hypothesis")
        importlib.invalidate_caches()
        import hypothesis  # noqa: F401
    if need_atheris:
        try:
            import atheris  # noqa: F401
        except ImportError:
            _pip_install("atheris")
            importlib.invalidate_caches()


_IMPL = None


def use_repo(impl: str | None = None) -> str:
    """Put the tree under test first on sys.path and select the implementation configuration.

    rebuilt (default): the compiled extensions are rebuilt from the tree's *current* .pyx sources
             (cached by content hash under /verif/.build) and loaded instead of the in-tree .so,
             so that an edit to a .pyx is visible to every check and a stale .so is never trusted;
    pure:    the extensions are blocked -> documented pure-Python fallbacks;
    tree:    whatever the tree imports by itself (in-tree .so if present).
    """
    global _IMPL
    if sys.path[0] != REPO:
        if REPO in sys.path:
            sys.path.remove(REPO)
        sys.path.insert(0, REPO)
    if _IMPL is not None or "scriptplan" in sys.modules:
        return REPO
    impl = impl or os.environ.get("VERIF_IMPL", "rebuilt")
    if impl == "rebuilt":
        d = ensure_native_build()
        if d:
            force_rebuilt(d)
        else:  # a .pyx that does not compile: the package falls back to pure Python
            impl = "pure(build failed)"
            force_pure()
    elif impl == "pure":
        force_pure()
    _IMPL = impl
    return REPO


def impl_name() -> str:
    return _IMPL or "unset"


def pyx_hash() -> str:
    import hashlib

    h = hashlib.sha256()
    src = os.path.join(REPO, "scriptplan", "_cython")
    for name in ("scoreboard_cy", "time_utils_cy", "working_hours_cy"):
        try:
            with open(os.path.join(src, name + ".pyx"), "rb") as f:
                h.update(f.read())
        except OSError:
            h.update(b"missing")
    h.update(sys.version.encode())
    return h.hexdigest()[:16]


def ensure_native_build() -> str | None:
    """Return a directory holding extensions compiled from the current .pyx files (or None)."""
    import fcntl

    root = os.path.join(VERIF, ".build")
    os.makedirs(root, exist_ok=True)
    d = os.path.join(root, pyx_hash())
    ok_marker = os.path.join(d, "OK")
    fail_marker = os.path.join(d, "FAILED")
    if os.path.exists(ok_marker):
        return d
    if os.path.exists(fail_marker):
        return None
    with open(os.path.join(root, ".lock"), "w") as lk:
        fcntl.flock(lk, fcntl.LOCK_EX)
        if os.path.exists(ok_marker):
            return d
        if os.path.exists(fail_marker):
            return None
        ok, log = rebuild_native(d)
        with open(ok_marker if ok else fail_marker, "w") as f:
            f.write(log)
    return d if ok else None


class _BlockNative(importlib.abc.MetaPathFinder):
    """Raise ImportError for the compiled extension modules -> pure fallback."""

    def find_spec(self, fullname, path=None, target=None):
        if fullname.startswith("scriptplan._cython.") and fullname.endswith("_cy"):
            raise ImportError("blocked by verif (pure configuration): " + fullname)
        return None


class _RebuiltNative(importlib.abc.MetaPathFinder):
    """Load the compiled extension modules from a rebuild directory."""

    def __init__(self, builddir: str):
        self.builddir = builddir

    def find_spec(self, fullname, path=None, target=None):
        if fullname.startswith("scriptplan._cython.") and fullname.endswith("_cy"):
            short = fullname.rsplit(".", 1)[1]
            for fn in os.listdir(self.builddir):
                if fn.startswith(short + ".") and fn.endswith(".so"):
                    p = os.path.join(self.builddir, fn)
                    loader = importlib.machinery.ExtensionFileLoader(fullname, p)
                    return importlib.util.spec_from_file_location(fullname, p, loader=loader)
            raise ImportError("rebuilt module missing: " + fullname)
        return None


def force_pure() -> None:
    assert "scriptplan" not in sys.modules, "force_pure must precede the first scriptplan import"
    sys.meta_path.insert(0, _BlockNative())


def force_rebuilt(builddir: str) -> None:
    assert "scriptplan" not in sys.modules
    sys.meta_path.insert(0, _RebuiltNative(builddir))


def rebuild_native(builddir: str) -> tuple[bool, str]:
    """Cythonize + compile the three .pyx of the tree under test into builddir."""
    import sysconfig

    os.makedirs(builddir, exist_ok=True)
    src = os.path.join(REPO, "scriptplan", "_cython")
    inc = sysconfig.get_paths()["include"]
    suffix = sysconfig.get_config_var("EXT_SUFFIX")
    procs = []
    log = []
    for name in ("scoreboard_cy", "time_utils_cy", "working_hours_cy"):
        pyx = os.path.join(src, name + ".pyx")
        c = os.path.join(builddir, name + ".c")
        so = os.path.join(builddir, name + suffix)
        cmd = (
            f"{PY} -m cython -3 {pyx} -o {c} && "
            f"gcc -shared -fPIC -O1 -w -I{inc} {c} -o {so}"
        )
        procs.append((name, subprocess.Popen(cmd, shell=True, stdout=subprocess.PIPE, stderr=subprocess.STDOUT)))
    ok = True
    for name, p in procs:
        out, _ = p.communicate()
        if p.returncode != 0:
            ok = False
            log.append(f"{name}: rc={p.returncode}\n{out.decode(errors='replace')[-2000:]}")
    return ok, "\n".join(log)


def native_status() -> dict:
    import scriptplan.core.project as prj
    import scriptplan.core.working_hours as wh
    import scriptplan.scheduler.scoreboard as sb

    return {"scoreboard": sb._USE_CYTHON, "project": prj._USE_CYTHON, "working_hours": wh._USE_CYTHON}
