"""Run the real parser/scheduler on a text and extract a plain-data Observation."""
from __future__ import annotations

import contextlib
import hashlib
import io
import traceback
from dataclasses import dataclass, field
from datetime import datetime
from typing import Optional

from . import boot

boot.use_repo()

_PARSER = None
EPS = 1e-6


def parser():
    global _PARSER
    if _PARSER is None:
        from scriptplan.parser.tjp_parser import ProjectFileParser

        _PARSER = ProjectFileParser()
    return _PARSER


@dataclass
class TaskObs:
    path: tuple
    leaf: bool
    scheduled: bool
    start: Optional[datetime]
    end: Optional[datetime]


@dataclass
class ScenObs:
    tasks: list = field(default_factory=list)  # TaskObs in declaration order
    ledger: dict = field(default_factory=dict)  # res id -> {slot: [(task path, seconds)]}
    used: dict = field(default_factory=dict)  # res id -> {slot: seconds}
    res_leaf: dict = field(default_factory=dict)  # res id -> bool

    def tmap(self):
        return {t.path: t for t in self.tasks}


@dataclass
class Observation:
    ok: bool
    phase: str = ""  # 'parse' | 'schedule' | 'done'
    exc_type: str = ""
    exc_msg: str = ""
    exc_bucket: str = ""
    exc_tb: str = ""
    stderr: str = ""
    start: Optional[datetime] = None
    end: Optional[datetime] = None  # effective (possibly extended) project end
    declared_end: Optional[datetime] = None
    gran: int = 3600
    scen: list = field(default_factory=list)
    scen_ids: list = field(default_factory=list)
    project: object = None  # the live Project (not serialisable); dropped by strip()

    def strip(self):
        self.project = None
        return self

    def digest(self, with_ledger: bool = False) -> str:
        h = hashlib.sha256()
        h.update(repr((self.ok, self.exc_type, self.start, self.gran)).encode())
        for sc in self.scen:
            for t in sc.tasks:
                h.update(repr((t.path, t.scheduled, t.start, t.end)).encode())
            if with_ledger:
                for rid in sorted(sc.ledger):
                    for slot in sorted(sc.ledger[rid]):
                        h.update(repr((rid, slot, [(p, round(s, 3)) for p, s in sc.ledger[rid][slot]])).encode())
        return h.hexdigest()

    def dates(self, sc: int = 0):
        return [(t.path, t.scheduled, t.start, t.end) for t in self.scen[sc].tasks]


def bucket_of(exc: BaseException) -> str:
    """(type, innermost scriptplan frame as module:function) -- no line numbers."""
    tb = traceback.extract_tb(exc.__traceback__)
    loc = "?"
    for fr in tb:
        fn = fr.filename.replace("\\", "/")
        if "/scriptplan/" in fn:
            loc = fn.split("/scriptplan/", 1)[1].rsplit(".", 1)[0].replace("/", ".") + ":" + fr.name
    return f"{type(exc).__name__}@{loc}"


def _path(task) -> tuple:
    return tuple(task.fullId.split("."))


def extract(project, obs: Observation) -> Observation:
    obs.start = project["start"]
    obs.end = project["end"]
    obs.gran = project.attributes.get("scheduleGranularity", 3600)
    nsc = project.scenarioCount()
    obs.scen_ids = [s.id for s in project.scenarios]
    for sc in range(nsc):
        so = ScenObs()
        for t in project.tasks:
            try:
                sched = bool(t.get("scheduled", sc))
                st = t.get("start", sc)
                en = t.get("end", sc)
            except Exception:  # attribute missing: treat as unscheduled
                sched, st, en = False, None, None
            so.tasks.append(TaskObs(_path(t), t.leaf(), sched, st, en))
        for r in project.resources:
            rs = r.data[sc] if r.data else None
            so.res_leaf[r.id] = r.leaf()
            if rs is None:
                continue
            led = {}
            for slot, lst in rs.slotTaskUsage.items():
                led[slot] = [(_path(t), float(s)) for t, s in lst]
            so.ledger[r.id] = led
            so.used[r.id] = {k: float(v) for k, v in rs.slotSecondsUsed.items()}
        obs.scen.append(so)
    return obs


def observe(text: str, schedule: bool = True, keep_project: bool = False) -> Observation:
    """Parse (and schedule) `text` with the tree under test.  Never raises."""
    obs = Observation(ok=False, phase="parse")
    err = io.StringIO()
    project = None
    try:
        with contextlib.redirect_stderr(err):
            project = parser().parse(text, schedule=False)
            obs.declared_end = project["end"]
            if schedule:
                obs.phase = "schedule"
                project.schedule()
            obs.phase = "done"
            extract(project, obs)
            obs.ok = True
    except BaseException as e:  # noqa: BLE001 - SystemExit etc. are findings for C11
        if isinstance(e, KeyboardInterrupt) or type(e).__name__ == "CpuTimeout":
            raise
        obs.exc_type = type(e).__name__
        obs.exc_msg = str(e)[:300]
        obs.exc_bucket = bucket_of(e)
        obs.exc_tb = "".join(traceback.format_exception(type(e), e, e.__traceback__))[-3000:]
        inner = getattr(e, "orig_exc", None)
        if inner is not None:
            obs.exc_type += "/" + type(inner).__name__
            obs.exc_bucket += "/" + bucket_of(inner)
    obs.stderr = err.getvalue()
    if keep_project:
        obs.project = project
    return obs


def slot_time(obs: Observation, idx: int) -> datetime:
    from datetime import timedelta

    return obs.start + timedelta(seconds=idx * obs.gran)


def task_slots(sc: ScenObs, path: tuple):
    """{res id: {slot: seconds}} of real (> EPS) bookings for one task."""
    out = {}
    for rid, led in sc.ledger.items():
        for slot, lst in led.items():
            for p, s in lst:
                if p == path and s > EPS:
                    out.setdefault(rid, {})
                    out[rid][slot] = out[rid].get(slot, 0.0) + s
    return out
