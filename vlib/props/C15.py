"""C15 - equivalent ways of writing a project give the same schedule."""
from __future__ import annotations

from dataclasses import replace

from hypothesis import strategies as st

from .. import gen, observe, rules
from ..engine import Campaign, Result, Violation
from ..spec import Spelling, _full, render

ID = "C15"
RULE = (
    "Metamorphic pairs: one generated project model (nested trees, DAGs with own / container / precedes edges, gaps, "
    "shifts, teams, sub-slot efforts, forward and backward) rendered twice with different spellings drawn from the "
    "listed meaning-preserving rewrites: (R1) consistent renaming of task / resource / shift identifiers, the first "
    "spelling deliberately using realistic collisions (same local id under different parents, a nested id equal to a "
    "top-level id, ids that are prefixes of each other, ids like plan, delayed, rev, macro1, days); (R2) each edge "
    "absolute <-> relative ('!', '!!', ...); (R3) depends <-> precedes on the other task (optionally also for gapped "
    "edges); (R4) shift reference <-> inline hours; (R5) '#', '//', '/* */' comments, blank lines, tabs, CRLF; (R6) "
    "attribute lines moved into macros (one- and two-line bodies with comments inside). Oracle: scheduled flag, start "
    "and end of every task are equal after mapping identifiers back. Non-trivial: a rewrite touched something "
    "semantically live - a renamed id that collides with another local id, a rewritten edge, or a macro / shift rewrite. "
    "Distinct = distinct pair of texts."
)
ASSUMPTIONS = [
    "macro parameters are not generated (their syntax is not documented for this implementation)",
    "identifiers are never language keywords; resource and shift ids stay globally unique (flat namespaces in TaskJuggler)",
]

PF = gen.Profile(
    resolutions=[15, 30, 60],
    min_tasks=3,
    max_tasks=9,
    max_res=3,
    depth=4,
    subslot=False,
    deps=0.7,
    container_deps=True,
    calendars=True,
    alap_project=True,
    teams=True,
    weeks=(3, 5),
    max_slots=8,
    leaves=True,
    res_groups=True,
    gaps=True,
    maxgap=True,
)
PF_SUB = replace(PF, subslot=True, odd_eff=True)

POOL = ["a", "b", "plan", "delayed", "rev", "macro1", "days", "t", "t1", "t10", "x_1", "A", "task1", "prj", "r0", "g", "hours"]


@st.composite
def spelling(draw, spec, collide: bool):
    sp = Spelling()
    which = draw(st.lists(st.sampled_from(["R1", "R2", "R3", "R3b", "R4", "R5", "R6"]), min_size=1, max_size=4, unique=True))
    import os

    if os.environ.get("C15_ONLY"):
        which = os.environ["C15_ONLY"].split(",")
    if "R1" in which:
        # rename tasks: distinct among siblings, deliberately reused across parents / levels
        def ren(ts, prefix):
            used = set()
            for t in ts:
                if collide:
                    cand = [x for x in POOL if x not in used]
                    nid = draw(st.sampled_from(cand))
                else:
                    nid = f"n{len(sp.idmap)}"
                used.add(nid)
                sp.idmap[("task", prefix + (t.id,))] = nid
                ren(t.children, prefix + (t.id,))

        ren(spec.tasks, ())
        if draw(st.booleans()):
            for i, (_p, r, _a) in enumerate(spec.iter_res()):
                sp.idmap[("res", r.id)] = f"res_{i}" if not collide else ["dev", "dev1", "dev10", "ops", "qa", "R", "plan_r"][i % 7]
            for i, sh in enumerate(spec.shifts):
                sp.idmap[("shift", sh.id)] = f"shift_{i}"
    edges = [(p, i) for p, t in spec.iter_tasks() for i, _d in enumerate(t.deps)]
    if "R2" in which and edges:
        for e in edges:
            if draw(st.booleans()):
                sp.rel_flip.add(e)
    if ("R3" in which or "R3b" in which) and edges:
        sp.flip_gaps = "R3b" in which
        for e in edges:
            if draw(st.booleans()):
                sp.flip.add(e)
    if "R4" in which:
        for _p, r, _a in spec.iter_res():
            if r.shift and draw(st.booleans()):
                sp.inline_shifts.add(r.id)
    if "R5" in which:
        sp.noise = draw(st.integers(1, 3))
        sp.crlf = draw(st.booleans())
    if "R6" in which:
        sp.macros = draw(st.integers(1, 2))
    return sp, which


@st.composite
def pairs(draw, pf):
    spec = draw(gen.project_specs(pf))
    a, wa = draw(spelling(spec, collide=True)) if draw(st.booleans()) else (Spelling(), [])
    b, wb = draw(spelling(spec, collide=False))
    return (spec, a, b, sorted(set(wa) | set(wb)))


def by_spec_path(spec, sp, obs):
    back = {}
    for p, _t in spec.iter_tasks():
        back[tuple(_full(sp, p).split("."))] = p
    out = {}
    for t in obs.scen[0].tasks:
        q = back.get(t.path)
        if q is not None:
            out[q] = t
    return out


def eval_pair(case):
    spec, a, b, which = case
    ta = render(spec, a)
    tb = render(spec, b)
    r = Result(key=ta + "\n=====\n" + tb)
    oa = observe.observe(ta)
    ob = observe.observe(tb)
    r.classes.extend(which)
    if not oa.ok or not ob.ok:
        r.classes.append("exc")
        r.violations.append(Violation("spelling_rejected" if oa.ok != ob.ok else "both_rejected", "project",
                                      f"spelling A ok={oa.ok} ({oa.exc_type}: {oa.exc_msg[:120]}); spelling B ok={ob.ok} ({ob.exc_type}: {ob.exc_msg[:120]})",
                                      {"rewrites": which}))
        return r
    ma = by_spec_path(spec, a, oa)
    mb = by_spec_path(spec, b, ob)
    vs = []
    if len(ma) != len(mb) or len(ma) != len(spec.task_map()):
        vs.append(Violation("task_set_differs", "project", f"{len(spec.task_map())} tasks in the model, {len(ma)} / {len(mb)} recognised in the two spellings", {"rewrites": which}))
    for p in ma:
        x, y = ma[p], mb.get(p)
        if y is None:
            continue
        if (x.scheduled, x.start, x.end) != (y.scheduled, y.start, y.end):
            vs.append(Violation("spelling_changes_schedule", ".".join(p),
                                f"A ({'.'.join(x.path)}): {x.scheduled} {x.start}..{x.end}; B ({'.'.join(y.path)}): {y.scheduled} {y.start}..{y.end}; rewrites {which}",
                                {"rewrites": which}))
            if len(vs) > 3:
                break
    r.violations = vs
    live = bool(a.idmap or b.idmap or a.flip or b.flip or a.rel_flip or b.rel_flip or a.inline_shifts or b.inline_shifts or a.macros or b.macros)
    r.nontrivial = live and any(t.deps for _p, t in spec.iter_tasks())
    if r.nontrivial:
        r.sample = {"A": ta, "B": tb}
    return r


def campaigns(tier):
    q = tier == "quick"
    return [
        Campaign("spellings", "hyp", evaluate=eval_pair, strategy=lambda: pairs(PF), n=2500 if q else 40000, floor_nontrivial=0.3,
                 describe="whole-slot projects rendered under two spellings (R1-R6)"),
        Campaign("spellings_subslot", "hyp", evaluate=eval_pair, strategy=lambda: pairs(PF_SUB), n=400 if q else 8000,
                 describe="the same with sub-slot efforts"),
    ]
