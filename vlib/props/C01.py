"""C01 - a resource is never double-booked."""
from __future__ import annotations

import itertools
from dataclasses import replace
from datetime import timedelta

from hypothesis import strategies as st

from .. import gen, observe, rules
from ..engine import Campaign, Result, Violation
from ..observe import EPS
from ..spec import render

ID = "C01"
RULE = (
    "Domain B: generated projects (sub-slot efforts, fractional efficiencies, chains on shared resources, teams, "
    "alternatives, priorities, ASAP/ALAP, resolutions 5..60 min) are scheduled by the real code; for every leaf "
    "resource and slot: entries >= 0, sum(entries) <= slot length, slotSecondsUsed within [0, slot length] and "
    ">= sum(entries) is not required; a layout respecting the reported start/end of tasks that begin or finish "
    "inside the slot must exist (feasibility test; a task that starts in the slot and goes on works from its start "
    "without a break, a task that arrives from another slot and ends here works up to its end). Further campaigns: "
    "limits of every kind with sub-slot efforts, and the region 'a dependent task probes a partly used slot but is "
    "kept out by a limit'. Non-trivial: some resource-slot holds real entries "
    "of >= 2 tasks. Domain A: a Hypothesis state machine drives bookResource / finish-and-release episodes on one "
    "slot of the real ResourceScenario/TaskScenario objects; non-trivial: >= 3 episodes on a slot incl. a partial "
    "release followed by another booking. Distinct = distinct rendered text / operation sequence."
)
ASSUMPTIONS = [
    "project time zone is UTC; calendars are slot-aligned (DESIGN 3.1)",
    "ledger entries <= 1e-6 s are floating-point residue and not work (DESIGN 3.2)",
]

TOL = 1.0  # seconds: reported times are rounded to whole seconds


def ledger_violations(obs, sc_idx=0):
    vs = []
    sc = obs.scen[sc_idx]
    tm = sc.tmap()
    gran = obs.gran
    shared = False
    for rid, led in sc.ledger.items():
        used = sc.used.get(rid, {})
        if not sc.res_leaf.get(rid, True) and led:
            continue  # C10's business
        for slot, lst in led.items():
            tot = 0.0
            real = []
            for p, s in lst:
                if s < -EPS:
                    vs.append(Violation("negative_entry", f"{rid}", f"slot {slot} task {'.'.join(p)} has {s} s"))
                tot += s
                if s > EPS:
                    real.append((p, s))
            if tot > gran + 1e-6:
                vs.append(
                    Violation(
                        "slot_overbooked",
                        f"{rid}",
                        f"slot {slot} ({observe.slot_time(obs, slot)}) holds {tot:.3f}s > {gran}s: "
                        + ", ".join(f"{'.'.join(p)}={s:.1f}" for p, s in lst),
                    )
                )
            u = used.get(slot, 0.0)
            if u < -EPS:
                vs.append(Violation("negative_used", f"{rid}", f"slot {slot} slotSecondsUsed={u}"))
            if len({p for p, _ in real}) >= 2:
                shared = True
                # layout feasibility with windows from reported dates
                a, b = rules.slot_bounds(obs, slot)
                wins = []
                for p, s in real:
                    t = tm.get(p)
                    if t is None or t.start is None or t.end is None or not t.scheduled:
                        continue
                    starts_here = a < t.start < b
                    ends_here = a < t.end <= b
                    lo = t.start if starts_here else a
                    hi = t.end if ends_here else b
                    # "the portions reported": a task that begins in the slot (and goes on) works from its start,
                    # a task that came from another slot and ends in this one works up to its end - without a break
                    if starts_here and not ends_here:
                        hi = min(b, lo + timedelta(seconds=s))
                    elif ends_here and not starts_here and t.start <= a:
                        lo = max(a, hi - timedelta(seconds=s))
                    wins.append((p, (lo - a).total_seconds(), (hi - a).total_seconds(), s))
                pts = sorted({w[1] for w in wins} | {w[2] for w in wins})
                for x, y in itertools.combinations(pts, 2):
                    need = sum(w[3] for w in wins if w[1] >= x and w[2] <= y)
                    if need > (y - x) + TOL * max(1, len(wins)):
                        vs.append(
                            Violation(
                                "layout_infeasible",
                                f"{rid}",
                                f"slot {slot}: tasks confined to [{x},{y}]s of the slot need {need:.1f}s: "
                                + ", ".join(f"{'.'.join(w[0])}[{w[1]:.0f},{w[2]:.0f}]={w[3]:.1f}" for w in wins),
                                {"tasks": [w[0] for w in wins]},
                            )
                        )
                        break
    return vs, shared


PF_B = gen.Profile(
    resolutions=[5, 10, 15, 20, 30, 60],
    min_tasks=3,
    max_tasks=8,
    max_res=3,
    depth=2,
    subslot=True,
    odd_eff=True,
    deps=0.6,
    alternatives=True,
    alap_project=True,
    alap_task=False,  # known finding F01: forward and backward tasks sharing one slot (region campaign below)
    chain=True,
    leaves=True,
    weeks=(2, 4),
    max_slots=6,
)


PF_LIM = replace(PF_B, limits=True, task_limits=True, res_groups=True, priorities=True, alternatives=False, max_tasks=9, weeks=(1, 2))
PF_MIX = replace(PF_B, alap_task=True, alap_project=False)


@st.composite
def limit_probe_specs(draw):
    """Region generator: a dependent task whose first candidate slot it reaches with a mid-slot offset, on a resource
    that another task has already used part of, while a limit on the task or its container keeps it out of the
    slot (so it only *probes* it); a low-priority task then wants what is left of the slot."""
    from datetime import datetime

    from ..spec import Dep, Limit, ProjectSpec, Res, Task

    res_min = draw(st.sampled_from([10, 15, 30, 60]))
    spec = ProjectSpec(start=datetime(2025, 1, 6), dur=(2, "w"), res_min=res_min, resources=[Res("r1"), Res("r2"), Res("r3")])
    k = draw(st.integers(1, 3))  # whole slots before the interesting one
    off_a = draw(st.integers(1, res_min - 1))
    off_c = draw(st.integers(1, res_min - 1))
    lim_slots = draw(st.integers(1, 4))
    a = Task("a", effort=(str(k * res_min + off_a), "min"), alloc=["r1"], priority=900)
    c = Task("c", effort=(str(k * res_min + off_c), "min"), alloc=["r2"], priority=850)
    b0 = Task("b0", effort=(str(lim_slots * res_min), "min"), alloc=["r3"], priority=800)
    b = Task("b", effort=(str(draw(st.integers(1, 3 * res_min))), "min"), alloc=["r2"], priority=700, deps=[Dep(("a",))])
    lim = Limit("dailymax", str(lim_slots * res_min), "min")
    where = draw(st.integers(0, 2))
    if where == 0:
        grp = Task("grp", limits=[lim], children=[b0, b])
        tasks = [a, c, grp]
    elif where == 1:  # the limit sits on the resource group of r2 and r3 instead
        spec.resources = [Res("r1"), Res("team", limits=[lim], children=[Res("r2"), Res("r3")])]
        tasks = [a, c, b0, b]
    else:  # on the task itself, used up by an earlier part of the day is impossible: use a tiny limit
        b.limits = [Limit("dailymax", str(max(1, draw(st.integers(0, 2))) * res_min), "min")]
        b.effort = (str(draw(st.integers(2, 4)) * res_min + draw(st.integers(0, res_min - 1))), "min")
        tasks = [a, c, b0, b]
    d = Task("d", effort=(str(draw(st.integers(1, 4 * res_min))), "min"), alloc=["r2"], priority=100)
    order = draw(st.permutations(tasks + [d]))
    spec.tasks = list(order)
    if draw(st.booleans()):
        spec.tasks.append(Task("e", effort=(str(draw(st.integers(1, 2 * res_min))), "min"), alloc=[draw(st.sampled_from(["r1", "r2", "r3"]))],
                               priority=draw(st.sampled_from([50, 750, 950]))))
    return spec


def eval_project(spec):
    text = render(spec)
    obs = observe.observe(text)
    r = Result(key=text)
    if not obs.ok:
        r.classes.append("exc:" + obs.exc_bucket)
        return r  # crashes are C11's business
    vs, shared = ledger_violations(obs)
    r.violations = vs
    r.nontrivial = shared
    r.classes.append("shared_slot" if shared else "no_shared_slot")
    r.classes.append(f"res{spec.res_min}")
    r.classes.append("alap" if spec.sched == "alap" else "asap")
    if shared:
        r.sample = text
    return r


def campaigns(tier):
    from . import C01_machine

    q = tier == "quick"
    return [
        Campaign(
            "projects",
            "hyp",
            evaluate=eval_project,
            strategy=lambda: gen.project_specs(PF_B),
            n=3000 if q else 40000,
            floor_nontrivial=0.05,
            describe="D1+D2 projects scheduled end to end; ledger invariants",
        ),
        Campaign("limits_subslot", "hyp", evaluate=eval_project, strategy=lambda: gen.project_specs(PF_LIM), n=900 if q else 20000,
                 describe="sub-slot efforts with dependency offsets under resource, group and task limits (tasks kept out of a slot by a limit)"),
        Campaign("limit_probe", "hyp", evaluate=eval_project, strategy=limit_probe_specs, n=600 if q else 12000,
                 describe="region: a dependent task probes a partly used slot with a mid-slot offset but is kept out by a limit; a later task takes the rest"),
        Campaign(
            "mixed_modes",
            "hyp",
            evaluate=eval_project,
            strategy=lambda: gen.project_specs(PF_MIX),
            n=600 if q else 6000,
            describe="finding region F01: forward projects with task-level ALAP anchors sharing resources",
        ),
        Campaign(
            "machine",
            "custom",
            run=C01_machine.run,
            evaluate=lambda trace: Result(violations=C01_machine.replay_trace(trace), key=repr(trace)),
            n=300 if q else 6000,
            describe="stateful: book / finish-and-release episodes on one slot of the real objects",
        ),
    ]
