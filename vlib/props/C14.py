"""C14 - shifting the calendar by whole weeks shifts the schedule by the same amount."""
from __future__ import annotations

import copy
from dataclasses import replace
from datetime import datetime, timedelta

from hypothesis import strategies as st

from .. import gen, observe
from ..engine import Campaign, Result, Violation
from ..spec import render

ID = "C14"
RULE = (
    "Metamorphic pairs of UTC projects (no resource time zones): a generated project (whole-slot and sub-slot efforts, "
    "DAGs, gaps, pins, ALAP deadlines, leaves / vacations / bookings / global holidays, own hours and shifts, "
    "dailymax / weeklymax on resources, groups and tasks) whose project start is drawn around year ends "
    "(28 Dec - 5 Jan), leap days (26 Feb - 2 Mar of leap and ordinary years), 53-week ISO years, or uniformly in "
    "2020-2033, and the same project with every date moved by k weeks, k in {1..5, 26, 51, 52, 53, 104, 156, 261, 313}; "
    "durations in d/w. Oracle: every reported start and end of the shifted run minus k weeks equals the original "
    "run; scheduled flags equal. Non-trivial: the pair straddles a year end, 29 Feb or an ISO week 53 (original and "
    "shifted horizons lie in different years or one of them contains such a point) and the project has a limit or a "
    "non-default calendar. Distinct = distinct (text, k)."
)
ASSUMPTIONS = ["project and all resources in UTC", "project durations in days/weeks (month/year lengths change the horizon)"]

OFFSETS = [1, 2, 3, 4, 5, 26, 51, 52, 53, 104, 156, 261, 313]

SPECIAL_STARTS = []
for y in (2020, 2021, 2024, 2025, 2026, 2027, 2028, 2032):
    for d in (datetime(y, 12, 21), datetime(y, 12, 26), datetime(y, 12, 28), datetime(y, 12, 30)):
        SPECIAL_STARTS.append(d)
    for d in (datetime(y, 1, 1), datetime(y, 1, 2), datetime(y, 1, 4), datetime(y, 2, 22), datetime(y, 2, 26)):
        SPECIAL_STARTS.append(d)

PF = gen.Profile(
    resolutions=[30, 60],
    min_tasks=2,
    max_tasks=7,
    max_res=3,
    depth=2,
    subslot=False,
    deps=0.5,
    calendars=True,
    zones=False,
    limits=True,
    task_limits=True,
    res_groups=True,
    teams=True,
    alap_project=True,
    alap_task=True,
    weeks=(2, 6),
    max_slots=30,
    leaves=True,
    glob_vac=True,
    glob_leaves=True,
    starts=SPECIAL_STARTS,
    year_end_holidays=True,
)
PF_ANY = replace(PF, starts=[], start_any=True)
PF_SUB = replace(PF, subslot=True, odd_eff=True, max_slots=10)
PF_GAPMY = replace(PF, resolutions=[60], durs=[(80, "w"), (120, "w"), (500, "d")], max_tasks=5, max_res=2, gap_units=("m", "y", "w"), deps=0.8, calendars=False,
                   alap_project=False, alap_task=False)
PF_LONG = replace(PF, resolutions=[60], durs=[(60, "w"), (110, "w"), (400, "d")], max_tasks=5, max_res=2, max_slots=60, calendars=False)


def shift_spec(spec, weeks):
    d = timedelta(weeks=weeks)
    s = copy.deepcopy(spec)
    s.start += d
    for lv in list(s.vacations) + list(s.gleaves):
        lv.start += d
        if lv.end is not None:
            lv.end += d
    for _p, r, _a in s.iter_res():
        for lv in r.leaves:
            lv.start += d
            if lv.end is not None:
                lv.end += d
    for _p, t in s.iter_tasks():
        if t.start is not None:
            t.start += d
        if t.end is not None:
            t.end += d
    return s


@st.composite
def pairs(draw, pf):
    spec = draw(gen.project_specs(pf))
    k = draw(st.sampled_from(OFFSETS))
    return (spec, k)


@st.composite
def year_weekly_pairs(draw):
    """Region: a project of 52-56 weeks that begins in the first days of January of a year whose last days belong to
    ISO week 1 of the next year (or that has a week 53), a resource (or group, or task) under a small weeklymax,
    work at the very beginning and work pinned to the last days of December - the two periods that a counter keyed
    by (calendar year, ISO week) would confuse."""
    from ..spec import Limit, ProjectSpec, Res, Task

    year = draw(st.sampled_from([2024, 2025, 2026, 2029, 2030, 2020, 2032]))
    start = datetime(year, 1, 1) + timedelta(days=draw(st.integers(0, 6)))
    res_min = 60
    lim = Limit("weeklymax", str(draw(st.integers(2, 12))), "h")
    r0 = Res("r0")
    spec = ProjectSpec(start=start, dur=(draw(st.integers(52, 56)), "w"), res_min=res_min, resources=[r0])
    where = draw(st.integers(0, 2))
    if where == 0:
        r0.limits = [lim]
    elif where == 1:
        spec.resources = [Res("grp", limits=[lim], children=[r0, Res("r1")])]
    early = Task("early", effort=(str(draw(st.integers(4, 30))), "h"), alloc=["r0"], priority=900)
    dec = datetime(year, 12, draw(st.integers(27, 31)), 9, 0)
    late = Task("late", effort=(str(draw(st.integers(2, 20))), "h"), alloc=["r0"], start=dec)
    if where == 2:
        g = Task("g", limits=[lim], children=[early, late])
        spec.tasks = [g]
    else:
        spec.tasks = [early, late]
    if draw(st.booleans()):
        spec.tasks.append(Task("mid", effort=(str(draw(st.integers(1, 40))), "h"), alloc=["r0"], start=datetime(year, draw(st.integers(3, 11)), 3, 9, 0)))
    k = draw(st.sampled_from(OFFSETS))
    return (spec, k)


def _special_points(a, b):
    """Does [a, b] contain a year end, a 29 Feb or days of an ISO week 53?"""
    t = a
    while t <= b:
        if (t.month == 12 and t.day == 31) or (t.month == 2 and t.day == 29) or t.isocalendar()[1] == 53:
            return True
        t += timedelta(days=1)
    return False


def eval_pair(case):
    spec, k = case
    t1 = render(spec)
    s2 = shift_spec(spec, k)
    t2 = render(s2)
    r = Result(key=t1 + f"\n# shift {k}w")
    o1 = observe.observe(t1)
    o2 = observe.observe(t2)
    if not o1.ok or not o2.ok:
        r.classes.append("exc")
        if o1.ok != o2.ok:
            r.violations.append(Violation("shift_changes_outcome", "project", f"original ok={o1.ok} ({o1.exc_bucket}); +{k}w ok={o2.ok} ({o2.exc_bucket})"))
        return r
    d = timedelta(weeks=k)
    vs = []
    if o2.end - d != o1.end:
        vs.append(Violation("horizon_differs", "project", f"effective end {o1.end} vs {o2.end} - {k}w = {o2.end - d}"))
    m2 = o2.scen[0].tmap()
    for a in o1.scen[0].tasks:
        b = m2.get(a.path)
        if b is None:
            continue
        bs = b.start - d if b.start is not None else None
        be = b.end - d if b.end is not None else None
        if (a.scheduled, a.start, a.end) != (b.scheduled, bs, be):
            vs.append(Violation("shift_not_equivariant", ".".join(a.path),
                                f"original {a.scheduled} {a.start}..{a.end}; shifted by {k}w and moved back {b.scheduled} {bs}..{be} (project start {spec.start})",
                                {"k": k}))
            if len(vs) > 3:
                break
    r.violations = vs
    has_feature = any(rr.limits or rr.hours is not None or rr.shift for _p, rr, _a in spec.iter_res()) or any(t.limits for _p, t in spec.iter_tasks())
    straddle = (_special_points(o1.start, o1.end) != _special_points(o2.start, o2.end)) or _special_points(o1.start, o1.end) or _special_points(o2.start, o2.end)
    r.nontrivial = bool(has_feature and straddle)
    r.classes.append(f"k{k}")
    r.classes.append("nontrivial" if r.nontrivial else "trivial")
    if r.nontrivial:
        r.sample = {"shift_weeks": k, "text": t1}
    return r


def campaigns(tier):
    q = tier == "quick"
    return [
        Campaign("year_ends", "hyp", evaluate=eval_pair, strategy=lambda: pairs(PF), n=2000 if q else 25000, floor_nontrivial=0.2,
                 describe="starts around year ends, leap days and 53-week ISO years"),
        Campaign("uniform", "hyp", evaluate=eval_pair, strategy=lambda: pairs(PF_ANY), n=400 if q else 8000,
                 describe="project start uniform in 2020-2033"),
        Campaign("subslot", "hyp", evaluate=eval_pair, strategy=lambda: pairs(PF_SUB), n=300 if q else 6000, describe="sub-slot efforts"),
        Campaign("gap_month_year", "hyp", evaluate=eval_pair, strategy=lambda: pairs(PF_GAPMY), n=100 if q else 2500,
                 describe="gapduration written in months / years (fixed-length units: the gap must not depend on the calendar position)"),
        Campaign("year_weekly", "hyp", evaluate=eval_pair, strategy=year_weekly_pairs, n=150 if q else 3000,
                 describe="region: one-year projects with a weekly limit, work in the first week of January and in the last days of December of the same year"),
        Campaign("long", "hyp", evaluate=eval_pair, strategy=lambda: pairs(PF_LONG), n=60 if q else 1500,
                 describe="projects spanning more than a year (several ISO years inside one horizon)"),
    ]
