"""C17 - slot/time conversion and interval scanning obey their algebra."""
from __future__ import annotations

import itertools
import math
from datetime import datetime, timedelta

from .. import boot
from ..engine import Campaign, Result, Violation

boot.use_repo()

ID = "C17"
RULE = (
    "Exhaustive grids in the configuration under test (extensions rebuilt from the current sources; C13 extends the "
    "verdict to the pure fallbacks). Windows: start in {midnight, 00:07, 09:30}, length in {0, 1 slot - 1 s, 1 slot, "
    "1 slot + 1 s, 26 h, 8 days, 400 days (>= 15 min only)}, resolutions {1, 5, 7, 10, 15, 20, 30, 45, 50, 60 min}; "
    "every index in [-3, size+3] (sampled evenly above 3000 slots, always incl. both ends); instants at every slot "
    "boundary, +-1 s and mid-slot. Laws for Scoreboard.idxToDate/dateToIdx and Project.idxToDate/dateToIdx/"
    "scoreboardSize: (i) date(i+1)-date(i) = resolution; (ii) idx(date(i)) = i; (iii) date(idx(t)) <= t < date(idx(t)+1) "
    "for t in the window; (iv) size = ceil((end-start)/res)+1 and date(size-1) >= end; (v) outside: IndexError, or the "
    "nearest valid index/date when clamping is requested. collectIntervals: every predicate pattern up to length 8 "
    "(quick) / 12 (thorough) x every query window x minDuration in {0, 1, 2, 3 slots, 1.5 slots} equals the reference "
    "list of maximal runs of the requested minimum length that intersect the window, clipped to it. Non-trivial: every "
    "grid point except interior indices of windows longer than 3 slots and all-false patterns. Distinct = distinct grid point."
)
ASSUMPTIONS = ["the last slot of a table is the end sentinel and is never part of a run (documented by the scan bounds)"]

RES = [1, 5, 7, 10, 15, 20, 30, 45, 50, 60]
STARTS = [datetime(2025, 1, 6, 0, 0), datetime(2025, 1, 6, 0, 7), datetime(2025, 1, 6, 9, 30)]


def lengths(res_s):
    out = [0, res_s - 1, res_s, res_s + 1, 26 * 3600, 8 * 86400]
    if res_s >= 900:
        out.append(400 * 86400)
    return out


def conv_cases():
    for res in RES:
        for st in STARTS:
            for ln in lengths(res * 60):
                yield (res, st, ln)


def _indices(size):
    if size <= 3000:
        return list(range(-3, size + 4))
    step = max(1, size // 1500)
    xs = set(range(-3, 60)) | set(range(size - 60, size + 4)) | set(range(0, size, step))
    return sorted(xs)


def eval_conv(case):
    from scriptplan.scheduler.scoreboard import Scoreboard

    res, st, ln = case
    gran = res * 60
    end = st + timedelta(seconds=ln)
    r = Result(key=f"conv {res} {st} {ln}")
    vs = []
    sb = Scoreboard(st, end, gran)
    want_size = math.ceil(ln / gran) + 1
    n = 0
    if sb.size != want_size:
        vs.append(Violation("size", f"res{res}", f"window {st}+{ln}s: size {sb.size}, expected ceil({ln}/{gran})+1 = {want_size}"))
    size = sb.size
    g = timedelta(seconds=gran)
    one = timedelta(seconds=1)
    for i in _indices(size):
        n += 1
        inside = 0 <= i < size
        try:
            d = sb.idxToDate(i)
            if not inside:
                vs.append(Violation("no_index_error", f"res{res}", f"idxToDate({i}) with size {size} returned {d}"))
                continue
        except IndexError:
            if inside:
                vs.append(Violation("spurious_index_error", f"res{res}", f"idxToDate({i}) with size {size}"))
            # clamped variant
            c = sb.idxToDate(i, True)
            want = st if i < 0 else end
            if c != want:
                vs.append(Violation("clamp_date", f"res{res}", f"idxToDate({i}, force) = {c}, expected {want}"))
            continue
        if d != st + i * g:
            vs.append(Violation("date_of_index", f"res{res}", f"idxToDate({i}) = {d}, expected {st + i * g}"))
            continue
        if sb.idxToDate(i, True) != d:
            vs.append(Violation("clamp_changes_inside", f"res{res}", f"idxToDate({i}, force) differs from idxToDate({i})"))
        # (ii) inverse and (iii) floor property on instants of this slot
        for t in (d, d + one, d + g / 2, d + g - one):
            if t > end and t != d:
                continue
            n += 1
            j = sb.dateToIdx(t, False) if t <= st + (size - 1) * g + g - one else None
            if j is not None and j != i:
                vs.append(Violation("floor_inverse", f"res{res}", f"dateToIdx({t}) = {j}, expected {i} (window {st}+{ln}s)"))
                break
            j2 = sb.dateToIdx(t, True)
            if j2 != i:
                vs.append(Violation("floor_inverse_clamped", f"res{res}", f"dateToIdx({t}, force) = {j2}, expected {i}"))
                break
        if i == size - 1 and d < end:
            vs.append(Violation("table_does_not_cover_end", f"res{res}", f"date(size-1) = {d} < end {end}"))
    # (v) instants outside
    for t, want in ((st - one, 0), (st - 3 * g, 0), (st + size * g, size - 1), (st + (size + 5) * g, size - 1)):
        n += 1
        try:
            j = sb.dateToIdx(t, False)
            vs.append(Violation("no_index_error", f"res{res}", f"dateToIdx({t}, no clamping) = {j} (window {st}..{end}, size {size})"))
        except IndexError:
            pass
        j = sb.dateToIdx(t, True)
        if j != want:
            vs.append(Violation("clamp_index", f"res{res}", f"dateToIdx({t}, force) = {j}, expected {want}"))
    # Project-level pair (no clamping, no bounds: pure arithmetic) + scoreboardSize
    from scriptplan.core.project import Project

    prj = Project("p", "P", "")
    prj["start"] = st
    prj["end"] = end
    prj["timingresolution"] = gran
    prj.initScoreboards()
    if prj.scoreboardSize() != want_size:
        vs.append(Violation("project_size", f"res{res}", f"Project.scoreboardSize() = {prj.scoreboardSize()}, expected {want_size}"))
    for i in _indices(size):
        n += 1
        d = prj.idxToDate(i)
        if d != st + i * g:
            vs.append(Violation("project_date_of_index", f"res{res}", f"Project.idxToDate({i}) = {d}, expected {st + i * g}"))
            break
        if i >= 0:
            for t in (d, d + one, d + g - one):
                j = prj.dateToIdx(t)
                if j != i:
                    vs.append(Violation("project_floor_inverse", f"res{res}", f"Project.dateToIdx({t}) = {j}, expected {i}"))
                    break
    r.violations = vs[:6]
    r.weight = n
    r.nontrivial = True
    r.classes.append(f"res{res}")
    r.nt_keys = [f"conv {res} {st} {ln} {k}" for k in range(min(n, 12))]  # boundary points of this window
    r.sample = {"resolution_min": res, "window_start": str(st), "window_seconds": ln, "indices_checked": len(_indices(size))}
    return r


# ---- collectIntervals -------------------------------------------------------------------------
def reference_intervals(pattern, s, e, m):
    """maximal runs over slots 0..len-2 (the last slot is the end sentinel), length >= m, intersecting [s, e)"""
    n = len(pattern)
    out = []
    i = 0
    while i < n - 1:
        if pattern[i]:
            a = i
            while i < n - 1 and pattern[i]:
                i += 1
            b = i
            if b - a >= m and max(a, s) < min(b, e):
                out.append((max(a, s), min(b, e)))
        else:
            i += 1
    return out


def ci_cases(tier):
    maxlen = 8 if tier == "quick" else 12
    for n in range(2, maxlen + 1):
        for bits in range(1 << (n - 1)):  # the sentinel slot's value is irrelevant; vary it with the parity
            yield (n, bits)


def eval_ci(case):
    from scriptplan.scheduler.scoreboard import Scoreboard
    from scriptplan.utils.time import TimeInterval

    n, bits = case
    pattern = [bool(bits >> k & 1) for k in range(n - 1)] + [bool(bin(bits).count("1") % 2)]
    res = 60 * [5, 15, 60][bits % 3]
    st = datetime(2025, 1, 6, 9, 0)
    g = timedelta(seconds=res)
    sb = Scoreboard(st, st + (n - 1) * g, res)
    r = Result(key=f"ci {n} {bits}")
    if sb.size != n:
        r.violations.append(Violation("size", "ci", f"size {sb.size} != {n}"))
        return r
    for i, v in enumerate(pattern):
        sb[i] = v
    vs = []
    cnt = 0
    for s in range(0, n):
        for e in range(s, n):
            for mdur in (0, res, 2 * res, 3 * res, res + res // 2):
                cnt += 1
                m = max(1, int(mdur / res))
                want = reference_intervals(pattern, s, e, m)
                got = sb.collectIntervals(TimeInterval(st + s * g, st + e * g), mdur, lambda x: bool(x))
                got_idx = [(int((iv.start - st) / g), int((iv.end - st) / g)) for iv in got]
                if got_idx != want:
                    if len(vs) < 3:
                        vs.append(Violation("collect_intervals", "ci",
                                            f"pattern {''.join('1' if x else '0' for x in pattern)} window [{s},{e}) minDuration {mdur}s (res {res}s): got {got_idx}, expected {want}",
                                            {"run_at_zero": bool(pattern[0]), "s": s, "e": e}))
    r.violations = vs
    r.weight = cnt
    r.nontrivial = any(pattern[:-1])
    if r.nontrivial:
        r.nt_keys = [r.key]
        r.sample = {"pattern": "".join("1" if x else "0" for x in pattern), "queries": cnt}
    return r


def _shard(gen_fn):
    def items(shard, nshards):
        for i, c in enumerate(gen_fn()):
            if i % nshards == shard:
                yield c

    return items


def campaigns(tier):
    return [
        Campaign("conversion", "enum", evaluate=eval_conv, items=_shard(conv_cases), exhaustive=True,
                 describe="index <-> time laws on Scoreboard and Project for every window of the grid"),
        Campaign("collect_intervals", "enum", evaluate=eval_ci, items=_shard(lambda: ci_cases(tier)), exhaustive=True,
                 describe="every predicate pattern up to the bound x every query window x minimum durations"),
    ]
