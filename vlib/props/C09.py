"""C09 - lower-priority work never disturbs higher-priority work."""
from __future__ import annotations

import copy
from dataclasses import replace
from datetime import timedelta

from hypothesis import strategies as st

from .. import gen, observe
from ..engine import Campaign, Result, Violation
from ..observe import EPS
from ..spec import Dep, Task, render

ID = "C09"
RULE = (
    "Metamorphic pairs: a generated base project (whole-slot and sub-slot efforts, nesting, DAGs with gaps, pins, "
    "leaves, calendars, limits on resources / groups / tasks, teams, forward and backward projects; all priorities "
    ">= 2; declared duration long enough that the horizon is not extended) and the same project plus one intruder "
    "task of priority 1 (or 0) on which nothing depends (any effort, any resource or team of the project, optional pin, "
    "optional dependencies on base tasks, ASAP or anchored ALAP; inserted at any declaration position, top level or "
    "inside a container that nothing depends on). Oracle: scheduled flag, start and end of every base leaf task are "
    "identical in both runs, and the per-task usage ledger of base tasks is identical; pairs whose effective project "
    "end differs are discarded and counted. Non-trivial: the intruder was scheduled on a resource that a base task "
    "also uses, not later than the last base booking on that resource. Distinct = distinct text of the extended project."
)
ASSUMPTIONS = [
    "an ALAP intruder carries no dependencies (ALAP mode propagation to predecessors is documented behaviour, not disturbance)",
    "containers enclosing the intruder are not compared (they summarise it)",
    "in backward projects the intruder has no own or inherited dependencies (there its predecessors are placed after it and must respect it)",
]

PF = gen.Profile(
    resolutions=[15, 30, 60],
    min_tasks=2,
    max_tasks=8,
    max_res=3,
    depth=3,
    subslot=False,
    deps=0.5,
    container_deps=True,
    calendars=True,
    limits=True,
    task_limits=True,
    res_groups=True,
    teams=True,
    alap_project=True,
    alap_task=False,
    weeks=(8, 12),
    max_slots=8,
    leaves=True,
)
PF_SHORT = replace(PF, weeks=(2, 4), calendars=False, limits=False, task_limits=False, res_groups=False)
PF_SUB = replace(PF, subslot=True, odd_eff=True, limits=False, task_limits=False, chain=True, resolutions=[10, 30, 60])


def _dependents_block(spec, cpath):
    """True if something depends on the container at cpath or on one of its ancestors."""
    for p, t in spec.iter_tasks():
        for d in t.deps:
            if cpath[: len(d.target)] == d.target:
                return True
    return False


@st.composite
def pairs(draw, pf):
    spec = draw(gen.project_specs(pf))
    for _p, t in spec.iter_tasks():  # base priorities >= 2
        if t.priority is not None and t.priority < 2:
            t.priority = 2
    res_min = spec.res_min
    leaf_rids = [rid for rid, (r, _a) in spec.res_map().items() if not r.children]
    x = Task("zz", priority=draw(st.sampled_from([1, 1, 0])))  # 0 is accepted by the parser and is the lowest value
    members = [draw(st.sampled_from(leaf_rids))]
    if len(leaf_rids) > 1 and draw(st.integers(0, 3)) == 0:
        other = draw(st.sampled_from([r for r in leaf_rids if r != members[0]]))
        members.append(other)
    x.alloc = members
    if pf.subslot and draw(st.booleans()):
        x.effort = (str(draw(st.integers(1, 20 * res_min))), "min")
    else:
        x.effort = (str(draw(st.integers(1, 40)) * res_min), "min")
    backward_project = spec.sched == "alap"
    mode = draw(st.sampled_from(["plain", "pin", "deps", "alap"]))
    base_leaves = [p for p, t in spec.iter_tasks() if not t.children]
    if mode == "pin" and not backward_project:
        span_days = (spec.end() - spec.start).days
        day = draw(st.integers(0, 12)) if draw(st.booleans()) else draw(st.integers(max(0, span_days - 9), max(0, span_days - 1)))
        x.start = spec.start + timedelta(days=day, minutes=res_min * draw(st.integers(0, 1440 // res_min - 1)))
    elif mode == "deps" and base_leaves and not backward_project:
        for _ in range(draw(st.integers(1, 2))):
            q = draw(st.sampled_from(base_leaves))
            if all(d.target != q for d in x.deps):
                x.deps.append(Dep(q, gap=(draw(st.integers(1, 48)) * res_min, "min") if draw(st.booleans()) else None))
    elif mode == "alap" and not backward_project:
        x.sched = "alap"
        x.end = spec.start + timedelta(days=draw(st.integers(3, 20)), minutes=res_min * draw(st.integers(0, 1440 // res_min - 1)))
    elif backward_project and draw(st.booleans()):
        x.end = spec.start + timedelta(days=draw(st.integers(10, 40)), minutes=res_min * draw(st.integers(0, 1440 // res_min - 1)))
    # position
    containers = [(p, t) for p, t in spec.iter_tasks() if t.children and not _dependents_block(spec, p)]
    if backward_project or x.sched == "alap":
        # in backward mode predecessors are placed after their successors: an intruder that inherits
        # a dependency from its container legitimately bounds those predecessors, so it must not have any
        tm_ = spec.task_map()
        containers = [(p, t) for p, t in containers if not any(tm_[p[:k]].deps for k in range(1, len(p) + 1))]
    if containers and draw(st.integers(0, 2)) == 0:
        cp, c = draw(st.sampled_from(containers))
        where = (cp, draw(st.integers(0, len(c.children))))
    else:
        where = ((), draw(st.integers(0, len(spec.tasks))))
    return (spec, x, where)


def with_intruder(spec, x, where):
    s2 = copy.deepcopy(spec)
    cp, idx = where
    if cp:
        lst = s2.task_map()[cp].children
    else:
        lst = s2.tasks
    lst.insert(idx, copy.deepcopy(x))
    return s2, cp + (x.id,)


def task_ledger(sc, path):
    out = {}
    for rid, led in sc.ledger.items():
        for slot, lst in led.items():
            for p, s in lst:
                if p == path and s > EPS:
                    out[(rid, slot)] = round(s, 3)
    return out


def eval_pair(case):
    spec, x, where = case
    base_text = render(spec)
    s2, xpath = with_intruder(spec, x, where)
    text2 = render(s2)
    r = Result(key=text2)
    o1 = observe.observe(base_text)
    o2 = observe.observe(text2)
    if not o1.ok or not o2.ok:
        r.classes.append("exc")
        if o1.ok != o2.ok:
            r.violations.append(Violation("intruder_changes_outcome", "project", f"base ok={o1.ok} ({o1.exc_bucket}) extended ok={o2.ok} ({o2.exc_bucket})"))
        return r
    if o1.end != o2.end:
        # The horizon extension is the one legitimate channel: it depends on the total effort (and gaps)
        # only.  An intruder with the same effort and gaps but without pin / mode / deadline must
        # therefore lead to the same effective project end.
        if x.start is not None or x.sched or x.end is not None:
            plain = copy.deepcopy(x)
            plain.start = plain.end = plain.sched = None
            s3, _ = with_intruder(spec, plain, where)
            o3 = observe.observe(render(s3))
            if o3.ok and o3.end != o2.end:
                r.violations.append(Violation("horizon_depends_on_non_effort_attribute", "project",
                                              f"effective end {o2.end} with the intruder as written, {o3.end} with the same effort but no date/mode, {o1.end} without it"))
                return r
        r.classes.append("discarded_horizon")
        r.excluded.append("horizon_differs")
        return r
    t1 = o1.scen[0].tmap()
    t2 = o2.scen[0].tmap()
    vs = []
    for p, t in spec.iter_tasks():
        a, b = t1.get(p), t2.get(p)
        if a is None or b is None:
            continue
        if t.children and xpath[: len(p)] == p:
            continue  # container around the intruder
        name = ".".join(p)
        if (a.scheduled, a.start, a.end) != (b.scheduled, b.start, b.end):
            vs.append(Violation("task_disturbed", name, f"without intruder {a.scheduled} {a.start}..{a.end}; with intruder {b.scheduled} {b.start}..{b.end}",
                                {"intruder_mode": "alap" if x.sched == "alap" else ("pin" if x.start else "plain")}))
            continue
        if not t.children and task_ledger(o1.scen[0], p) != task_ledger(o2.scen[0], p):
            vs.append(Violation("ledger_disturbed", name, "bookings of the task differ between the two runs"))
    r.violations = vs[:5]
    # non-triviality
    xo = t2.get(xpath)
    nt = False
    if xo is not None and xo.scheduled:
        xl = task_ledger(o2.scen[0], xpath)
        for rid in {k[0] for k in xl}:
            base_slots = [slot for slot, lst in o2.scen[0].ledger.get(rid, {}).items() for p, s in lst if p != xpath and s > EPS]
            if base_slots and min(k[1] for k in xl if k[0] == rid) <= max(base_slots):
                nt = True
        r.classes.append("intruder_scheduled")
    else:
        r.classes.append("intruder_unscheduled")
    r.nontrivial = nt
    r.classes.append("nontrivial" if nt else "trivial")
    r.classes.append("alap_project" if spec.sched == "alap" else "asap_project")
    if nt:
        r.sample = text2
    return r


# ---- second clause: of independent tasks competing for one resource the higher-priority one is served first ----
PRIOS = [0, 1, 100, 499, 500, 501, 750, 900, 1000]


@st.composite
def contests(draw):
    """2-5 independent effort tasks (no dependencies, no dates) on ONE resource, each directly at top level or inside
    1-2 levels of containers; priorities are written on the task, on a container (inherited) or nowhere (default
    500); an explicit value may equal the default."""
    from datetime import datetime

    from ..spec import ProjectSpec, Res

    res_min = draw(st.sampled_from([15, 30, 60]))
    spec = ProjectSpec(start=datetime(2025, 1, 6), dur=(4, "w"), res_min=res_min, resources=[Res("r0")])
    if draw(st.booleans()):
        spec.sched = "alap"
    n = draw(st.integers(2, 5))
    order = []  # (path, effective priority)
    gi = 0
    for i in range(n):
        leaf = Task(f"t{i}", effort=(str(draw(st.integers(1, 6)) * res_min), "min"), alloc=["r0"])
        eff_prio = 500
        depth = draw(st.integers(0, 2))
        chain = []
        for _ in range(depth):
            c = Task(f"g{gi}")
            gi += 1
            if draw(st.booleans()):
                c.priority = draw(st.sampled_from(PRIOS))
                eff_prio = c.priority
            chain.append(c)
        if draw(st.integers(0, 2)) > 0:
            leaf.priority = draw(st.sampled_from(PRIOS + [500, 500]))
            eff_prio = leaf.priority
        node = leaf
        for c in reversed(chain):
            c.children = [node]
            node = c
        spec.tasks.append(node)
        order.append((tuple(x.id for x in chain) + (leaf.id,), eff_prio))
    return spec, order


def eval_contest(case):
    spec, order = case
    text = render(spec)
    obs = observe.observe(text)
    r = Result(key=text)
    if not obs.ok:
        r.classes.append("exc:" + obs.exc_bucket)
        return r
    tm = obs.scen[0].tmap()
    ranked = sorted(range(len(order)), key=lambda i: (-order[i][1], i))  # priority, then declaration order
    backward = spec.sched == "alap"
    r.classes.append("alap" if backward else "asap")
    prev = None
    for i in ranked:
        p, pr = order[i]
        to = tm.get(p)
        if to is None or not to.scheduled:
            r.classes.append("unscheduled")
            return r
        if prev is not None:
            q, qpr, qo = prev
            # one resource, no other constraint: whoever is served first takes the slots next to the project
            # start (forward) / project end (backward)
            bad = to.start < qo.start if not backward else to.end > qo.end
            if bad and qpr != pr:
                r.violations.append(Violation("lower_priority_served_first", ".".join(p),
                                              f"priority {pr} {to.start}..{to.end} is placed ahead of {'.'.join(q)} (priority {qpr}) {qo.start}..{qo.end}",
                                              {"explicit_default": pr == 500 or qpr == 500}))
                break
        prev = (p, pr, to)
    r.nontrivial = len({pr for _p, pr in order}) >= 2
    if any(pr == 500 for _p, pr in order):
        r.classes.append("has_500")
    if r.nontrivial:
        r.sample = text
    return r


def campaigns(tier):
    q = tier == "quick"
    return [
        Campaign("intruder", "hyp", evaluate=eval_pair, strategy=lambda: pairs(PF), n=2000 if q else 30000, floor_nontrivial=0.2,
                 describe="whole-slot base projects with calendars, limits, groups, teams; forward and backward"),
        Campaign("intruder_short", "hyp", evaluate=eval_pair, strategy=lambda: pairs(PF_SHORT), n=500 if q else 10000,
                 describe="2-4 week projects with intruders pinned near the declared end (horizon channel)"),
        Campaign("served_first", "hyp", evaluate=eval_contest, strategy=contests, n=800 if q else 15000,
                 describe="second clause: independent tasks on one resource are served in the order of their effective (own, inherited or default) priority"),
        Campaign("intruder_subslot", "hyp", evaluate=eval_pair, strategy=lambda: pairs(PF_SUB), n=500 if q else 10000,
                 describe="sub-slot efforts, chains on shared resources"),
    ]
