"""C13 - compiled fast paths and pure-Python fallbacks are equivalent."""
from __future__ import annotations

import json
import os
import shutil
import subprocess
import sys
import tempfile

from .. import boot
from ..engine import Campaign, Result, ShardOut, Violation, _split, _viol_payload

ID = "C13"
RULE = (
    "Differential runs in separate worker processes: 'pure' (extensions blocked -> documented fallbacks) versus "
    "'rebuilt' (the three .pyx of the current tree cythonized and compiled for this run); the in-tree .so ('tree') "
    "is run as well and a difference is reported as a note about a stale build, not as a verdict. Domain A, exhaustive "
    "grids: WorkingHours.onShift for every k-th minute (quick k=5, thorough k=1) of nine days x 82 interval families "
    "(empty day, 1-3 intervals, touching, cross-midnight, previous-day cross-midnight onto listed / unlisted days) x "
    "zones {none, Asia/Kolkata, America/Los_Angeles and Europe/Berlin across a DST change}, get_daily_hours on the "
    "same families; Scoreboard.idxToDate/dateToIdx and Project.idxToDate/dateToIdx for every index in [-5, size+5] and "
    "instants slot +- {0, 1 s, len-1 s} x 10 resolutions x windows x clamping, outcomes incl. raised IndexError; "
    "collectIntervals for every pattern up to length 8 (quick) / 11 (thorough) x every window x 5 minimum durations. "
    "Domain B: generated projects (calendars, zones, cross-midnight, limits, sub-slot efforts, ALAP) scheduled in each "
    "configuration; dates, flags and the full usage ledger (float repr) must be identical. Oracle: exact equality of "
    "return values / exception types. Non-trivial: grid rows on which the function's value changes along the row "
    "(boundaries, clamping, cross-midnight); projects with a non-default calendar. Distinct = distinct grid row / project text."
)
ASSUMPTIONS = [
    "Cython 3 and gcc are available offline (verified); if the rebuild fails the run is a harness error, not a pass",
    "windows are bounded by 75 years (slot tables of that length are still allocated by the checks)",
]

WORKER = os.path.join(boot.VERIF, "vlib", "c13_worker.py")


def run_worker(impl, job, tmpdir, tag):
    jf = os.path.join(tmpdir, f"job_{tag}.json")
    of = os.path.join(tmpdir, f"out_{tag}_{impl}.json")
    if not os.path.exists(jf):
        with open(jf, "w") as f:
            json.dump(job, f)
    env = dict(os.environ, VERIF_IMPL=impl, PYTHONHASHSEED="0")
    p = subprocess.run([sys.executable, WORKER, impl, jf, of], env=env, capture_output=True, text=True, timeout=3000)
    if p.returncode != 0 or not os.path.exists(of):
        raise RuntimeError(f"worker {impl} failed rc={p.returncode}: {p.stderr[-1500:]}")
    with open(of) as f:
        return json.load(f)


def first_diff(a, b):
    n = min(len(a), len(b))
    for i in range(n):
        if a[i] != b[i]:
            return i
    return n if len(a) != len(b) else -1


def compare_job(job, tag, out: ShardOut, tmpdir, seed, shard):
    pure = run_worker("pure", job, tmpdir, tag)
    reb = run_worker("rebuilt", job, tmpdir, tag)
    if pure["impl"] != "pure" or any(pure["native"].values()):
        raise RuntimeError(f"pure configuration not pure: {pure['impl']} {pure['native']}")
    if not reb["impl"].startswith("rebuilt") or not all(reb["native"].values()):
        raise RuntimeError(f"rebuilt configuration did not load the compiled modules: {reb['impl']} {reb['native']}")
    tree = None
    if job.get("with_tree"):
        try:
            tree = run_worker("tree", job, tmpdir, tag)
        except Exception as e:  # noqa: BLE001
            out.notes.append(f"tree configuration failed: {str(e)[:200]}")
    for k, (pa, pb) in enumerate(zip(pure["results"], reb["results"])):
        name, va = pa
        _n2, vb = pb
        r = Result(key=f"{job['kind']} {name}")
        r.weight = max(1, len(va) if job["kind"] == "onshift" else va.count("|") + va.count(";") + 1)
        if job["kind"] == "projects":
            r.nontrivial = "workinghours" in job["texts"][k] or "timezone" in job["texts"][k]
        elif name.startswith("onshift"):
            r.nontrivial = "0" in va and "1" in va  # the value changes along the row
        elif name.startswith("daily"):
            r.nontrivial = any(ch in va for ch in "123456789")
        elif job["kind"] == "ci":
            r.nontrivial = "-" in va
        else:
            r.nontrivial = True
        if r.nontrivial:
            r.sample = {"row": name, "value_prefix": va[:160]}
        if va != vb:
            i = first_diff(va, vb)
            ctx = f"first difference at position {i}: pure ...{va[max(0, i - 30): i + 30]!r} / compiled ...{vb[max(0, i - 30): i + 30]!r}"
            if job["kind"] == "projects":
                la, lb = va.split("\n"), vb.split("\n")
                j = first_diff(la, lb)
                ctx = f"line {j}: pure {la[j] if j < len(la) else None!r} / compiled {lb[j] if j < len(lb) else None!r}"
            r.violations.append(Violation("native_differs_from_pure", name, ctx, {"kind": job["kind"]}))
        out.record(r)
        unknown, known = _split(r.violations, "C13", None)
        for kf in known:
            out.known_hits[kf] += 1
        if unknown and out.violation is None:
            case = {"job": job["kind"], "row": name, "pure": va[:5000], "compiled": vb[:5000], "text": job["texts"][k] if job["kind"] == "projects" else None}
            out.violation = _viol_payload("C13", "differential", case, unknown, seed, shard, case if job["kind"] == "projects" else {"row": name})
    if tree is not None:
        stale = sum(1 for a, b in zip(tree["results"], reb["results"]) if a[1] != b[1])
        if stale:
            out.notes.append(f"in-tree .so differs from a rebuild of the current .pyx on {stale} rows of job {tag} (stale build artefact; not a verdict)")


def grid_jobs(tier):
    q = tier == "quick"
    jobs = []
    nf = 82
    per = 6
    for a in range(0, nf, per):
        jobs.append(("onshift%d" % a, {"kind": "onshift", "step": 5 if q else 1, "fams": list(range(a, min(nf, a + per))), "with_tree": a == 0}))
    windows = []
    for r in [1, 5, 7, 10, 15, 20, 30, 45, 50, 60]:
        for st in ("2025-01-06T00:00:00", "2025-01-06T00:07:00", "2025-01-06T09:30:00"):
            for ln in (0, r * 60 - 1, r * 60, r * 60 + 1, 26 * 3600, 8 * 86400):
                windows.append((r, st, ln))
    # long windows at fine resolutions: elapsed seconds beyond 2^24 (single-precision floats lose whole seconds there)
    for r, years in ((1, 3), (5, 3), (15, 3), (30, 5), (60, 10)):
        for st in ("2025-01-06T00:00:00", "2025-01-06T00:07:00"):
            windows.append((r, st, years * 365 * 86400 + 3600))
    # windows in which index x resolution passes 2^31 seconds (68 years): 32-bit products wrap there (fix 1766845)
    for r, years in ((60, 75), (30, 70)):
        windows.append((r, "2000-01-03T00:00:00", years * 365 * 86400 + 1800))
    for a in range(0, len(windows), 30):
        jobs.append(("conv%d" % a, {"kind": "conv", "windows": windows[a: a + 30], "with_tree": a == 0}))
    maxlen = 8 if q else 11
    pats = [(n, b) for n in range(2, maxlen + 1) for b in range(1 << n)]
    chunk = max(1, len(pats) // 12)
    for a in range(0, len(pats), chunk):
        jobs.append(("ci%d" % a, {"kind": "ci", "patterns": pats[a: a + chunk], "with_tree": a == 0}))
    return jobs


def project_texts(seed, n):
    import hypothesis
    from hypothesis import HealthCheck, Phase, given, settings

    from .. import gen
    from ..spec import render

    pf = gen.Profile(resolutions=[10, 15, 30, 60], min_tasks=2, max_tasks=7, max_res=3, depth=2, subslot=True, odd_eff=True, deps=0.5,
                     calendars=True, zones=True, crossmid=True, dst=True, limits=True, task_limits=True, res_groups=True, leaves=True,
                     glob_vac=True, alap_project=True, alap_task=True, weeks=(2, 4), max_slots=12, year_end_holidays=True)
    texts = []

    @hypothesis.seed(seed)
    @settings(max_examples=n, database=None, deadline=None, phases=[Phase.generate], suppress_health_check=list(HealthCheck))
    @given(gen.project_specs(pf))
    def collect(spec):
        texts.append(render(spec))

    collect()
    return texts


def run(seed, shard, nshards, out: ShardOut, n):
    tier = "quick" if n <= 400 else "thorough"
    tmp_root = os.path.join(boot.VERIF, ".build", "c13_tmp")
    os.makedirs(tmp_root, exist_ok=True)
    tmpdir = tempfile.mkdtemp(prefix=f"s{shard}_", dir=tmp_root)
    try:
        if boot.ensure_native_build() is None:
            raise RuntimeError("the .pyx sources of the tree under test do not compile: rebuilt configuration unavailable")
        jobs = grid_jobs(tier)
        for k, (tag, job) in enumerate(jobs):
            if k % nshards == shard:
                compare_job(job, tag, out, tmpdir, seed, shard)
        per = max(1, n // nshards)
        texts = project_texts(seed * 1000 + shard, per)
        if shard == 1 % nshards:
            # one long-running project: slot indexes whose distance from the start exceeds 2^31 seconds
            texts.append(f"""project prj "P" 2000-01-03 +70y {{
  timingresolution 60min
}}
resource dev "dev" {{
}}
task late "late" {{
  effort {2 + seed % 3}d
  allocate dev
  start 2068-06-04-09:00
}}
task next "next" {{
  effort 5h
  allocate dev
  depends late {{ gapduration 2d }}
}}
""")
        compare_job({"kind": "projects", "texts": texts, "with_tree": shard == 0}, "projects", out, tmpdir, seed, shard)
    finally:
        shutil.rmtree(tmpdir, ignore_errors=True)


def replay_case(case):
    """Replays need the two worker processes again."""
    out = ShardOut()
    tmp_root = os.path.join(boot.VERIF, ".build", "c13_tmp")
    os.makedirs(tmp_root, exist_ok=True)
    tmpdir = tempfile.mkdtemp(prefix="replay_", dir=tmp_root)
    try:
        if case.get("text"):
            compare_job({"kind": "projects", "texts": [case["text"]]}, "replay", out, tmpdir, 0, 0)
        else:
            for tag, job in grid_jobs("quick"):
                if job["kind"] == case.get("job"):
                    compare_job(job, tag, out, tmpdir, 0, 0)
    finally:
        shutil.rmtree(tmpdir, ignore_errors=True)
    r = Result(key=str(case.get("row")))
    if out.violation:
        r.violations = [Violation(v["kind"], v["locus"], v["detail"]) for v in out.violation["violations"]]
    return r


def campaigns(tier):
    q = tier == "quick"
    return [
        Campaign("differential", "custom", run=run, evaluate=replay_case, n=320 if q else 8000, exhaustive=False,
                 describe="pure vs rebuilt-from-source: exhaustive grids for the five accelerated functions + generated projects end to end"),
    ]
