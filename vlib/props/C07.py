"""C07 - ASAP schedules equal the priority-ordered earliest-fit schedule."""
from __future__ import annotations

import itertools
from dataclasses import replace
from datetime import datetime, timedelta

from .. import gen, observe
from ..engine import Campaign, Result, Violation
from ..refsched import RefScheduler
from ..spec import Dep, Hours, Leave, Limit, ProjectSpec, Res, Task, render

ID = "C07"
RULE = (
    "Domain A: random projects of the core dialect (slot-aligned calendars incl. own hours, shifts and time zones, "
    "efforts that are whole slots at the resource's efficiency, any DAG over leaves and containers, priorities, "
    "aligned gaps, on-start edges, pinned starts, dated/undated milestones, leaves, resource / group / task limits, "
    "equal-efficiency teams, resolutions 10-60 min; forward mode, no alternatives). Domain B: exhaustive enumeration "
    "of a bounded universe U (1-3 tasks on 1-2 resources, effort 1-2 slots, priority in {100,500,900}, every DAG, "
    "gap 0/1 slot, allocation r1/r2/team, optional dailymax of 2 slots on r1, optional leave of r1 on day 1, optional "
    "pin, 4-slot working days); quick enumerates a seed-selected 1/64 slice, thorough all of U. Oracle: scheduled "
    "flag, start and end of every task equal those of an independent reference list scheduler (vlib/refsched.py). "
    "Non-trivial: in the reference schedule some task had to skip a slot because of a booking or a limit (competition), "
    "or a gap / leave was binding. Distinct = distinct rendered text."
)
ASSUMPTIONS = [
    "the reference implements the documented rule; tasks whose reference end lies within two slots of the observed horizon are compared only if both sides scheduled them",
    "a team consumes one unit of every shared limit per member and slot (TaskJuggler semantics)",
]

PF = gen.Profile(
    resolutions=[10, 15, 20, 30, 60],
    min_tasks=2,
    max_tasks=9,
    max_res=3,
    depth=3,
    subslot=False,
    deps=0.55,
    gaps=True,
    dup_edges=True,
    local_ids=True,
    onstart=True,
    precedes=True,
    container_deps=True,
    priorities=True,
    pins=True,
    milestones=True,
    leaves=True,
    glob_vac=True,
    calendars=True,
    zones=True,
    limits=True,
    task_limits=True,
    res_groups=True,
    teams=True,
    weeks=(2, 5),
    max_slots=12,
    start_tod=True,
)
PF_WIDE = replace(PF, calendars=False, zones=False, limits=False, task_limits=False, res_groups=False, depth=1, min_tasks=10, max_tasks=14, max_res=2,
                  deps=0.25, max_slots=4, milestones=False)
PF_PLAIN = replace(PF, calendars=False, zones=False, limits=False, task_limits=False, res_groups=False, depth=2)


def compare(spec, obs, sc_idx=0):
    vs = []
    ref = RefScheduler(spec, obs.end)
    placed = ref.run()
    sc = obs.scen[sc_idx]
    tm = sc.tmap()
    gran = timedelta(seconds=obs.gran)
    nontrivial = False
    classes = set()
    for p, t in spec.iter_tasks():
        if t.children:
            continue
        pl = placed[p]
        to = tm.get(p)
        if to is None:
            continue
        name = ".".join(p)
        if pl.competed:
            nontrivial = True
            classes.add("competition")
        near_horizon = pl.scheduled and pl.end is not None and pl.end > obs.end - 2 * gran
        if pl.scheduled != to.scheduled:
            if near_horizon or (not pl.scheduled and to.scheduled and to.end and to.end > obs.end - 2 * gran):
                classes.add("horizon_edge_skipped")
                continue
            vs.append(Violation("scheduled_flag", name, f"reference scheduled={pl.scheduled} ({pl.start}..{pl.end}), scriptplan scheduled={to.scheduled} ({to.start}..{to.end})",
                                {"ref_scheduled": pl.scheduled}))
            continue
        if not pl.scheduled:
            classes.add("unscheduled_both")
            continue
        if to.start != pl.start or to.end != pl.end:
            vs.append(Violation("dates_differ", name, f"reference {pl.start} .. {pl.end} (bound {pl.bound}), scriptplan {to.start} .. {to.end}",
                                {"team": len(t.alloc) > 1, "milestone": t.milestone}))
    return vs, nontrivial, classes


def eval_project(spec):
    text = render(spec)
    obs = observe.observe(text)
    r = Result(key=text)
    if not obs.ok:
        r.classes.append("exc:" + obs.exc_bucket)
        return r
    vs, nt, classes = compare(spec, obs)
    r.violations = vs
    r.nontrivial = nt
    r.classes.extend(sorted(classes))
    r.classes.append(f"res{spec.res_min}")
    if nt:
        r.sample = text
    return r


# ---- Domain B: bounded universe ---------------------------------------------------------------
DAY = Hours({d: [(9 * 60, 13 * 60)] for d in range(5)})  # four 1 h slots per working day
U_START = datetime(2025, 1, 6)


def universe():
    """Yield compact descriptors of every project of U in a fixed order."""
    prios = [100, 500, 900]
    for nt in (1, 2, 3):
        pairs = [(a, b) for a in range(nt) for b in range(nt) if a < b]
        # every DAG on nt tasks whose edges go from lower to higher index or the reverse: choose for each pair
        # none / a->b / b->a, keep the acyclic ones (all are acyclic for nt <= 2; filtered for nt = 3)
        edge_choices = list(itertools.product((0, 1, 2), repeat=len(pairs)))
        for edges in edge_choices:
            es = []
            for (a, b), c in zip(pairs, edges):
                if c == 1:
                    es.append((a, b))
                elif c == 2:
                    es.append((b, a))
            if nt == 3 and _cyclic(es, nt):
                continue
            for efforts in itertools.product((1, 2), repeat=nt):
                for pr in itertools.product(prios, repeat=nt):
                    for allocs in itertools.product(("r1", "r2", "team"), repeat=nt):
                        for gap in (0, 1):
                            if gap and not es:
                                continue
                            for lim in (False, True):
                                for leave in (False, True):
                                    for pin in (None, 0):
                                        yield (nt, tuple(es), efforts, pr, allocs, gap, lim, leave, pin)


def _cyclic(es, n):
    adj = {i: [b for a, b in es if a == i] for i in range(n)}
    state = {}

    def dfs(u):
        state[u] = 1
        for v in adj[u]:
            if state.get(v) == 1 or (v not in state and dfs(v)):
                return True
        state[u] = 2
        return False

    return any(dfs(i) for i in range(n) if i not in state)


def build(desc):
    nt, es, efforts, pr, allocs, gap, lim, leave, pin = desc
    r1 = Res("r1", hours=DAY)
    r2 = Res("r2", hours=DAY)
    if lim:
        r1.limits = [Limit("dailymax", "2", "h")]
    if leave:
        r1.leaves = [Leave("leaves", U_START, None)]
    spec = ProjectSpec(start=U_START, dur=(2, "w"), res_min=60, resources=[r1, r2])
    for i in range(nt):
        t = Task(f"t{i}", effort=(str(efforts[i]), "h"), priority=pr[i], alloc=["r1", "r2"] if allocs[i] == "team" else [allocs[i]])
        spec.tasks.append(t)
    for a, b in es:  # a precedes b
        spec.tasks[b].deps.append(Dep((f"t{a}",), gap=(gap, "h") if gap else None))
    if pin is not None:
        spec.tasks[pin].start = U_START + timedelta(days=1, hours=10)
    return spec


def enum_items(tier, seed):
    def items(shard, nshards):
        stride = 1 if tier == "thorough" else 64
        offset = 0 if tier == "thorough" else seed % 64
        for i, d in enumerate(universe()):
            if i % stride != offset:
                continue
            if (i // stride) % nshards != shard:
                continue
            yield d

    return items


def eval_desc(desc):
    return eval_project(build(desc))


def campaigns(tier):
    import os

    q = tier == "quick"
    seed = int(os.environ.get("VERIF_SEED", "1") or "1")
    return [
        Campaign("core", "hyp", evaluate=eval_project, strategy=lambda: gen.project_specs(PF), n=1500 if q else 40000, floor_nontrivial=0.2,
                 describe="D0 with calendars, zones, limits, groups, teams, nesting"),
        Campaign("plain", "hyp", evaluate=eval_project, strategy=lambda: gen.project_specs(PF_PLAIN), n=700 if q else 15000,
                 describe="D0 on the default calendar: DAGs, priorities, gaps, pins, milestones, leaves, teams"),
        Campaign("wide", "hyp", evaluate=eval_project, strategy=lambda: gen.project_specs(PF_WIDE), n=300 if q else 6000,
                 describe="10-14 sibling tasks on one level competing for 1-2 resources (ties beyond the ninth sibling)"),
        Campaign("universe", "enum", evaluate=eval_desc, items=enum_items(tier, seed), exhaustive=not q,
                 describe="bounded universe U" + (" (complete)" if not q else " (1/64 slice selected by VERIF_SEED)")),
    ]
