"""C16 - scenarios are scheduled independently."""
from __future__ import annotations

import copy
from dataclasses import replace
from datetime import timedelta

from hypothesis import strategies as st

from .. import gen, observe
from ..engine import Campaign, Result, Violation
from ..observe import EPS
from ..spec import fmt_date, render

ID = "C16"
RULE = (
    "Generated projects (whole-slot and sub-slot efforts, DAGs, leaves, limits on resources / groups / tasks in about "
    "half of the cases, teams) with a scenario tree of 1-4 scenarios (depth <= 3) and scenario-specific effort / start "
    "/ end overrides on random tasks, written after (main class) or before the plain attribute; campaign alap_anchors: "
    "forward projects with task-level ALAP chains where the deadline of an ALAP task and the pinned start of other "
    "tasks are scenario specific. Oracle: for every "
    "scenario k the dates of scenario index k equal those of a single-scenario run of the text in which k's effective "
    "values (own override, else nearest overriding ancestor scenario, else the plain value) are written as plain "
    "attributes; hence adding scenarios leaves existing ones unchanged and a scenario without overrides equals its "
    "parent. In addition the per-scenario ledger must contain exactly the bookings of the corresponding "
    "single-scenario run (nothing carried over). Non-trivial: >= 2 scenarios with >= 1 override that changes at least "
    "one date, on a resource shared with a task that has no override. Distinct = distinct rendered text."
)
ASSUMPTIONS = [
    "override values are aligned like plain values; sc:end only in backward projects on tasks that may carry a deadline",
]

PF = gen.Profile(
    resolutions=[30, 60],
    min_tasks=2,
    max_tasks=7,
    max_res=3,
    depth=2,
    subslot=False,
    deps=0.5,
    limits=True,
    task_limits=True,
    res_groups=True,
    teams=True,
    scenarios=True,
    alap_project=True,
    weeks=(4, 8),
    max_slots=10,
    leaves=True,
)
PF_ANCH = replace(PF, alap_project=False, alap_task=True, alap_chains=True, limits=False, task_limits=False, deps=0.7)
PF_SUB = replace(PF, subslot=True, odd_eff=True, limits=False, task_limits=False)


@st.composite
def cases(draw, pf, before_class=False, anchors=False):
    spec = draw(gen.project_specs(pf))
    scids = spec.scenario_ids()
    res_min = spec.res_min
    has_succ = {d.target for _p, t in spec.iter_tasks() for d in t.deps}
    leaves = [(p, t) for p, t in spec.iter_tasks() if not t.children]
    for p, t in leaves:
        if draw(st.integers(0, 2)) > 0:
            continue
        for sc in scids[1:] if len(scids) > 1 else scids:
            if draw(st.integers(0, 1)) == 0:
                continue
            before = before_class and draw(st.booleans())
            kinds = []
            if t.effort is not None:
                kinds.append("effort")
            if spec.sched != "alap" and not t.deps and t.effort is not None:
                kinds.append("start")
            if spec.sched == "alap" and p not in has_succ and t.end is not None:
                kinds.append("end")
            if anchors:
                # forward project with task-level ALAP: the deadline of an ALAP task and the pinned start of
                # anything else decide who is pulled backward by the ALAP propagation - per scenario
                from .. import rules

                if rules.explicit_backward(spec, p):
                    kinds += ["end", "end"]
                elif t.effort is not None and "start" not in kinds:
                    kinds.append("start")
            if not kinds:
                continue
            k = draw(st.sampled_from(kinds))
            if k == "effort":
                if pf.subslot:
                    val = f"{draw(st.integers(1, 12 * res_min))}min"
                else:
                    eff = spec.res_map()[t.alloc[0]][0].efficiency()
                    n = draw(st.integers(1, 12))
                    mins = n * res_min * eff
                    n *= mins.denominator
                    val = f"{int(n * res_min * eff)}min"
            else:
                base = t.start if k == "start" and t.start else (t.end if k == "end" and t.end else spec.start + timedelta(days=3))
                dt = base + timedelta(days=draw(st.integers(-2, 6)), minutes=res_min * draw(st.integers(0, 600 // res_min)))
                if dt < spec.start:
                    dt = spec.start + timedelta(days=1)
                val = fmt_date(dt)
            t.overrides.append((sc, k, val, before))
    return spec


def effective_single(spec, scid):
    """The single-scenario project that scenario `scid` must be equal to."""
    par = spec.scenario_parent()
    chain = []
    s = scid
    while s is not None:
        chain.append(s)
        s = par.get(s)
    s1 = copy.deepcopy(spec)
    s1.scenarios = []
    from datetime import datetime

    for _p, t in s1.iter_tasks():
        ov = t.overrides
        t.overrides = []
        for attr in ("effort", "start", "end"):
            val = None
            for s in chain:  # nearest scenario first
                hits = [o for o in ov if o[0] == s and o[1] == attr]
                if hits:
                    val = hits[-1][2]
                    break
            if val is None:
                continue
            if attr == "effort":
                t.effort = (val[:-3], "min")
            else:
                fmt = "%Y-%m-%d-%H:%M" if len(val) > 10 else "%Y-%m-%d"
                setattr(t, attr, datetime.strptime(val, fmt))
    return s1


def ledger_of(sc):
    out = {}
    for rid, led in sc.ledger.items():
        for slot, lst in led.items():
            for p, s in lst:
                if s > EPS:
                    out[(rid, slot, p)] = round(s, 3)
    return out


def eval_case(spec):
    text = render(spec)
    r = Result(key=text)
    o = observe.observe(text)
    if not o.ok:
        r.classes.append("exc:" + o.exc_bucket)
        return r
    scids = spec.scenario_ids()
    if o.scen_ids != scids:
        r.violations.append(Violation("scenario_list", "project", f"model scenarios {scids}, project scenarios {o.scen_ids}"))
        return r
    vs = []
    changed = False
    base_dates = None
    for k, sc in enumerate(scids):
        single = effective_single(spec, sc)
        o1 = observe.observe(render(single))
        if not o1.ok:
            r.classes.append("single_exc")
            continue
        want = o1.scen[0].tmap()
        for t in o.scen[k].tasks:
            w = want.get(t.path)
            if w is None:
                continue
            if (t.scheduled, t.start, t.end) != (w.scheduled, w.start, w.end):
                ov = [x for x in spec.task_map()[t.path].overrides]
                vs.append(Violation("scenario_differs_from_single_run", f"{sc}:{'.'.join(t.path)}",
                                    f"scenario {sc} (index {k}): {t.scheduled} {t.start}..{t.end}; as the only scenario: {w.scheduled} {w.start}..{w.end}; overrides on this task {ov}",
                                    {"before": any(x[3] for x in ov), "inherited": sc not in [x[0] for x in ov] and bool(ov),
                                     "scenario_index": k, "horizon_differs": o.end != o1.end}))
                break
        else:
            if ledger_of(o.scen[k]) != ledger_of(o1.scen[0]):
                vs.append(Violation("scenario_ledger_differs", sc, "bookings of this scenario differ from its single-scenario run",
                                    {"scenario_index": k, "horizon_differs": o.end != o1.end}))
        d = [(t.path, t.start, t.end) for t in o1.scen[0].tasks]
        if base_dates is None:
            base_dates = d
        elif d != base_dates:
            changed = True
    r.violations = vs[:4]
    any_ov = any(t.overrides for _p, t in spec.iter_tasks())
    r.nontrivial = len(scids) >= 2 and any_ov and changed
    r.classes.append(f"scen{len(scids)}")
    if any(x[3] for _p, t in spec.iter_tasks() for x in t.overrides):
        r.classes.append("override_before_plain")
    if r.nontrivial:
        r.sample = text
    return r


def campaigns(tier):
    q = tier == "quick"
    return [
        Campaign("scenarios", "hyp", evaluate=eval_case, strategy=lambda: cases(PF), n=700 if q else 16000, floor_nontrivial=0.1,
                 describe="scenario trees with effort/start/end overrides written after the plain attribute; limits in half the cases"),
        Campaign("scenarios_subslot", "hyp", evaluate=eval_case, strategy=lambda: cases(PF_SUB), n=250 if q else 5000,
                 describe="the same with sub-slot efforts"),
        Campaign("alap_anchors", "hyp", evaluate=eval_case, strategy=lambda: cases(PF_ANCH, anchors=True), n=400 if q else 8000,
                 describe="forward projects with task-level ALAP chains; scenario-specific deadlines of ALAP tasks and pinned starts of their predecessors"),
        Campaign("override_before_plain", "hyp", evaluate=eval_case, strategy=lambda: cases(PF, before_class=True), n=250 if q else 5000,
                 describe="class: scenario-specific attribute written before the plain attribute"),
    ]
