"""C02 - work is booked only inside the resource's working time."""
from __future__ import annotations

from dataclasses import replace
from datetime import timedelta

from .. import gen, observe, rules
from ..calendar_oracle import Calendar
from ..engine import Campaign, Result, Violation
from ..observe import EPS
from ..spec import render

ID = "C02"
RULE = (
    "Generated projects whose resources have own hours / a shift / the default calendar (1-3 intervals per day, "
    "cross-midnight intervals, day groups), IANA zones incl. DST transitions placed inside the horizon and "
    "date-line zones, single-day and ranged leaves / vacations / blocking bookings, global vacations and "
    "holidays, all resolutions, ASAP and ALAP. Oracle: every ledger slot with real usage on resource R satisfies "
    "working(R, slot) of an independent calendar recomputed from the spec (first and last second of the slot). "
    "Non-trivial: the booked span of some task crosses a calendar feature (a non-working slot of its resource "
    "between its first and last booked slot) while the resource has a non-default calendar, a non-UTC zone or a "
    "leave. Distinct = distinct rendered project text."
)
ASSUMPTIONS = [
    "project zone UTC; calendars slot-aligned; zones only where every UTC offset in the horizon is a multiple of the resolution (DESIGN 3.1)",
    "a zoned resource declares its own hours or a shift",
    "one workinghours statement per weekday",
]

PF = gen.Profile(
    resolutions=[10, 15, 20, 30, 60],
    min_tasks=2,
    max_tasks=6,
    max_res=3,
    depth=2,
    subslot=False,
    deps=0.4,
    calendars=True,
    zones=True,
    crossmid=True,
    dst=True,
    leaves=True,
    glob_vac=True,
    glob_leaves=True,
    alap_project=True,
    alap_task=True,
    weeks=(2, 4),
    max_slots=40,
    teams=True,
    res_groups=True,
    year_end_holidays=True,
)
PF_SUB = replace(PF, subslot=True, odd_eff=True, max_slots=12)


def calendar_violations(spec, obs, sc_idx=0):
    vs = []
    cal = Calendar(spec)
    sc = obs.scen[sc_idx]
    gran = timedelta(seconds=obs.gran)
    one = timedelta(seconds=1)
    nontrivial = False
    classes = set()
    rmap = spec.res_map()
    for rid, led in sc.ledger.items():
        if rid not in rmap:
            continue
        booked = sorted(s for s, lst in led.items() if any(x > EPS for _p, x in lst))
        bad = 0
        for slot in booked:
            a = observe.slot_time(obs, slot)
            w0 = cal.working(rid, a)
            w1 = cal.working(rid, a + gran - one)
            if w0 and w1:
                continue
            if w0 != w1:
                classes.add("unaligned_slot")
                continue  # calendar not aligned with the slot grid: not judged
            why = "leave/holiday" if cal.blocked(rid, a) else "outside working hours"
            r = rmap[rid][0]
            loc = ""
            if r.tz:
                from ..calendar_oracle import local_of

                loc = f" (local {local_of(a, r.tz)} {r.tz})"
            tasks = ", ".join(".".join(p) for p, x in led[slot] if x > EPS)
            if bad < 3:
                vs.append(Violation("booked_" + why.replace("/", "_").replace(" ", "_"), rid, f"slot {a}{loc} booked for {tasks}: {why}",
                                    {"rid": rid, "why": why, "slot": str(a)}))
            bad += 1
        # non-triviality: a gap inside some task's booked span
        r = rmap[rid][0]
        special = bool(r.tz or r.hours is not None or r.shift or r.leaves or spec.vacations or spec.gleaves)
        if special and booked:
            per_task = {}
            for slot in booked:
                for p, x in led[slot]:
                    if x > EPS:
                        per_task.setdefault(p, []).append(slot)
            for p, sl in per_task.items():
                if sl[-1] - sl[0] + 1 > len(sl):
                    nontrivial = True
            if r.tz:
                classes.add("zone")
                from ..calendar_oracle import local_of

                offs = {(local_of(observe.slot_time(obs, sl), r.tz) - observe.slot_time(obs, sl)) for sl in (booked[0], booked[-1])}
                if len(offs) > 1:
                    classes.add("dst_change_inside_booked_span")
            hrs = r.hours if r.hours is not None else (spec.shift_map()[r.shift].hours if r.shift else None)
            if hrs is not None and any(e <= s_ for ivs in hrs.table.values() for s_, e in ivs):
                from ..calendar_oracle import local_of

                for sl in booked:
                    lt = local_of(observe.slot_time(obs, sl), r.tz)
                    prev = hrs.table.get((lt.weekday() - 1) % 7, [])
                    m = lt.hour * 60 + lt.minute
                    if any(e <= s_ and m < e for s_, e in prev) and not any(s_ <= m < e for s_, e in hrs.table.get(lt.weekday(), []) if e > s_):
                        classes.add("booked_after_midnight_part")
                        if not hrs.table.get(lt.weekday()):
                            classes.add("booked_after_midnight_on_unlisted_day")
                        break
            if r.hours is not None or r.shift:
                classes.add("own_calendar")
            if r.leaves:
                classes.add("leave")
    return vs, nontrivial, classes


def eval_project(spec):
    text = render(spec)
    obs = observe.observe(text)
    r = Result(key=text)
    if not obs.ok:
        r.classes.append("exc:" + obs.exc_bucket)
        return r
    vs, nt, classes = calendar_violations(spec, obs)
    r.violations = vs
    r.nontrivial = nt
    r.classes.extend(sorted(classes))
    r.classes.append("nontrivial" if nt else "trivial")
    if nt:
        r.sample = text
    return r


def campaigns(tier):
    q = tier == "quick"
    return [
        Campaign("calendars", "hyp", evaluate=eval_project, strategy=lambda: gen.project_specs(PF), n=3000 if q else 50000, floor_nontrivial=0.2,
                 describe="D3: shifts, own hours, zones, DST, cross-midnight, leaves, holidays; whole-slot efforts"),
        Campaign("calendars_subslot", "hyp", evaluate=eval_project, strategy=lambda: gen.project_specs(PF_SUB), n=2000 if q else 20000,
                 describe="D3+D1: the same calendars with sub-slot efforts"),
    ]
