"""C20 - CLI runs leave no trace and do not interfere with each other."""
from __future__ import annotations

import os
import re
import time
from dataclasses import replace

from hypothesis import strategies as st

from .. import climon, gen
from ..engine import Campaign, Result, Violation
from ..spec import ReportDef, render

ID = "C20"
RULE = (
    "Batches of N concurrent 'plan report' subprocesses (quick N in 2..24, thorough up to 96) in ONE working directory "
    "with ONE private TMPDIR; the inputs of a batch are drawn from: the same valid file many times, copies with "
    "identical content, different valid files, stdin input, both output formats, failing inputs (missing file, empty, "
    "syntax error, non-UTF-8 bytes, an own report whose name contains ':' / '*' / '..' / a path separator / an "
    "absolute path, '-o existing-file'), with random start staggering; every distinct invocation is also run alone. "
    "Oracle: (a) after every batch and every solitary run the listing of the working directory is unchanged and "
    "TMPDIR is empty - on every exit path; (b) exit status and stdout bytes of each concurrent invocation equal those "
    "of its solitary run; (c) history monitor on solitary runs (strace -f): every path created, written or renamed lies "
    "under TMPDIR, every created path is removed before exit, and no created path occurs in two invocations "
    "(uniqueness means interference through shared names is impossible). Non-trivial: a batch with >= 8 overlapping "
    "processes containing >= 2 identical inputs and >= 1 failing input; for (c) a run that takes a failure path after "
    "temporary files exist. Distinct = distinct batch composition."
)
ASSUMPTIONS = [
    "OS interleavings are sampled, not enumerated; clause (c) makes the verdict independent of lucky timing",
    "strace is available (verified at run time; otherwise clause (c) is skipped and noted)",
]

PF = gen.Profile(resolutions=[30, 60], min_tasks=1, max_tasks=5, max_res=2, depth=2, subslot=False, deps=0.4, weeks=(2, 3), max_slots=6, leaves=False)

BAD_NAMES = ["Status: weekly", "what*ever", "../escaped", "sub/dir/rep", "/tmp/verif_c20_escape", "a|b", "ok name", "..", "trail/",
             "sub/../../leak", "a/b/../../../../cwd/leak2", "x/../y", "./../z",
             # names that leave the output directory through directories which do not exist yet
             "../plan_reports/weekly/tasks", "../../up2/deeper/rep", "{CWD}/export/2025/summary", "{TMP}/side/by/side", "new/../../fresh/dir/rep"]


@st.composite
def batches(draw, max_n):
    nspecs = draw(st.integers(1, 3))
    inputs = []  # (file name, bytes, description)
    for i in range(nspecs):
        spec = draw(gen.project_specs(PF))
        own = []
        if draw(st.integers(0, 2)) == 0:
            own.append(ReportDef(id=f"own{i}", name=draw(st.sampled_from(BAD_NAMES)), columns=["id", "end"], formats=draw(st.sampled_from([["json"], ["csv"], ["json", "csv"]]))))
        text = render(replace(spec, reports=own))
        inputs.append((f"p{i}.tjp", text.encode(), "valid" + ("+own:" + own[0].name if own else "")))
        if draw(st.booleans()):
            inputs.append((f"copy{i}.tjp", text.encode(), "copy"))
    extra = draw(st.lists(st.sampled_from(["missing", "empty", "syntax", "nonutf8", "existing_out", "badname"]), max_size=3))
    for k, e in enumerate(extra):
        if e == "empty":
            inputs.append((f"empty{k}.tjp", b"", "empty"))
        elif e == "syntax":
            inputs.append((f"syn{k}.tjp", inputs[0][1].replace(b"{", b"{ ]] ", 1), "syntax"))
        elif e == "badname":  # a valid project in a file whose name is not valid UTF-8 (or holds a blank / newline)
            nm = draw(st.sampled_from([os.fsdecode(b"n\xff%d.tjp" % k), "my plan %d.tjp" % k, os.fsdecode(b"caf\xe9%d.tjp" % k)]))
            inputs.append((nm, inputs[0][1], "badname"))
        elif e == "nonutf8":
            inputs.append((f"bin{k}.tjp", inputs[0][1][:40] + b"\xff\xfe\x80 caf\xe9 " + inputs[0][1][40:], "nonutf8"))
    n = draw(st.integers(2, max_n))
    invs = []
    for _ in range(n):
        kind = draw(st.integers(0, 9))
        csvf = draw(st.booleans())
        name, data, desc = draw(st.sampled_from(inputs))
        if kind == 0 and "missing" in extra:
            invs.append({"args": ["report"] + (["--csv"] if csvf else []) + ["nosuch.tjp"], "stdin": None, "desc": "missing"})
        elif kind == 1 and "existing_out" in extra:
            invs.append({"args": ["report", "-o", "p0.tjp", name], "stdin": None, "desc": "existing_out:" + desc})
        elif kind == 2:
            invs.append({"args": ["report"] + (["--csv"] if csvf else []) + ["-"], "stdin": data, "desc": "stdin:" + desc})
        elif kind == 3:
            # explicit output file (always --force so that the outcome does not depend on the order inside a batch)
            target = draw(st.sampled_from(["res0", "res1"])) + draw(st.sampled_from([".json", ".csv", "", ".out"]))
            invs.append({"args": ["report"] + (["--csv"] if csvf else []) + ["--force", "-o", target, name], "stdin": None, "desc": "outfile:" + desc, "outfile": target})
        elif kind == 4 and draw(st.booleans()):
            invs.append({"args": ["report", "--force", "-o", "adir", name], "stdin": None, "desc": "outdir:" + desc, "mkdir": "adir"})
        else:
            invs.append({"args": ["report"] + (["--csv"] if csvf else []) + [name], "stdin": None, "desc": desc})
    stagger = [draw(st.integers(0, 40)) for _ in invs]
    return {"inputs": inputs, "invs": invs, "stagger": stagger}


def inv_key(inv):
    return (tuple(inv["args"]), inv["stdin"])


CREATE_RE = re.compile(r'^(\d+)\s+(openat|open|creat|mkdir|rename|renameat|renameat2)\((.*)\)\s+=\s+(-?\d+)')
UNLINK_RE = re.compile(r'^(\d+)\s+(unlink|unlinkat|rmdir)\((.*)\)\s+=\s+(-?\d+)')


def analyse_trace(trace, sb):
    """-> (created paths, removed paths, paths written outside TMPDIR)"""
    created, removed, outside = [], set(), []
    for ln in trace.split("\n"):
        m = CREATE_RE.match(ln)
        if m and int(m.group(4)) >= 0:
            call, argstr = m.group(2), m.group(3)
            paths = re.findall(r'"((?:[^"\\]|\\.)*)"', argstr)
            if not paths:
                continue
            if call in ("openat", "open", "creat"):
                if not ("O_CREAT" in argstr or "O_WRONLY" in argstr or "O_RDWR" in argstr or "O_TRUNC" in argstr or call == "creat"):
                    continue
                path = paths[0]
            elif call == "mkdir":
                path = paths[0]
            else:
                path = paths[-1]
            if not os.path.isabs(path):
                path = os.path.normpath(os.path.join(sb.cwd, path))
            path = os.path.normpath(path)
            if path.startswith("/dev/") or path.startswith("/proc/") or "__pycache__" in path:
                continue
            if "O_CREAT" in argstr or call in ("mkdir", "creat", "rename", "renameat", "renameat2"):
                created.append(path)
            if not path.startswith(sb.tmp + os.sep):
                outside.append(f"{call} {path}")
            continue
        m = UNLINK_RE.match(ln)
        if m and int(m.group(4)) >= 0:
            paths = re.findall(r'"((?:[^"\\]|\\.)*)"', m.group(3))
            if paths:
                p = paths[0]
                if not os.path.isabs(p):
                    p = os.path.normpath(os.path.join(sb.cwd, p))
                removed.add(os.path.normpath(p))
    return created, removed, outside


_STRACE = None


def eval_batch(case):
    global _STRACE
    if _STRACE is None:
        _STRACE = climon.have_strace()
    sb = climon.Sandbox()
    r = Result(key=repr([(i["args"], i["desc"]) for i in case["invs"]]) + repr([(n, len(d)) for n, d, _ in case["inputs"]]))
    vs = []
    try:
        def subst(b):  # report names may point at the sandbox itself
            return b.replace(b"{CWD}", sb.cwd.encode()).replace(b"{TMP}", sb.tmp.encode()) if b is not None else None

        case = dict(case, inputs=[(n, subst(d), x) for n, d, x in case["inputs"]], invs=[dict(i, stdin=subst(i["stdin"])) for i in case["invs"]])
        for name, data, _d in case["inputs"]:
            if "/" in name:
                os.makedirs(os.path.join(sb.cwd, os.path.dirname(name)), exist_ok=True)
            sb.write(name, data)
        if any(i.get("mkdir") for i in case["invs"]):
            os.makedirs(os.path.join(sb.cwd, "adir"), exist_ok=True)
        base = climon.listing(sb.cwd)
        outfile_content = {}
        # ---- solitary reference runs (with the history monitor) -----------------------------------
        solo = {}
        all_created = {}
        traced_failpath = False
        for inv in case["invs"]:
            k = inv_key(inv)
            if k in solo:
                continue
            run = sb.run(inv["args"], stdin=inv["stdin"], strace=_STRACE)
            solo[k] = run
            where = f"solitary {inv['desc']} {' '.join(inv['args'])}"
            of = inv.get("outfile")
            if of and run.rc == 0:
                # the file the user asked for is the one permitted change of the working directory
                pth = os.path.join(sb.cwd, of)
                if os.path.isfile(pth):
                    with open(pth, "rb") as fh:
                        outfile_content[k] = fh.read()
                    os.unlink(pth)
                    run.cwd_after = climon.listing(sb.cwd)
                else:
                    vs.append(Violation("outfile_missing", where, f"exit 0 but {of} was not written"))
            if run.cwd_after != base:
                vs.append(Violation("cwd_changed", where, f"working directory now {sorted(set(run.cwd_after) ^ set(base))[:5]} differ (exit {run.rc})", {"desc": inv["desc"]}))
                base = climon.listing(sb.cwd)
            if run.tmp_after:
                vs.append(Violation("tmp_left_behind", where, f"TMPDIR holds {run.tmp_after[:5]} after exit {run.rc}", {"desc": inv["desc"]}))
                for p in run.tmp_after:  # clean for the next run
                    q = os.path.join(sb.tmp, p)
                    if os.path.isdir(q):
                        import shutil

                        shutil.rmtree(q, ignore_errors=True)
                    elif os.path.exists(q):
                        os.unlink(q)
            if _STRACE and run.trace:
                created, removed, outside = analyse_trace(run.trace, sb)
                if of:  # the file the user named with -o is the one legitimate write outside TMPDIR
                    allowed = os.path.normpath(os.path.join(sb.cwd, of))
                    outside = [o for o in outside if not o.endswith(" " + allowed)]
                    created = [c for c in created if c != allowed]
                if outside:
                    vs.append(Violation("write_outside_tmpdir", where, f"{outside[:4]}", {"desc": inv["desc"]}))
                left = [p for p in created if p not in removed and os.path.exists(p)]
                if left and not run.tmp_after:
                    vs.append(Violation("created_not_removed", where, f"{left[:4]}"))
                for p in set(created):
                    if p in all_created and all_created[p] != k:
                        vs.append(Violation("shared_temp_name", where, f"{p} is also created by another invocation"))
                    all_created[p] = k
                if run.rc != 0 and created:
                    traced_failpath = True
            if os.path.exists("/tmp/verif_c20_escape.json") or os.path.exists("/tmp/verif_c20_escape.csv"):
                vs.append(Violation("write_outside_tmpdir", where, "/tmp/verif_c20_escape.* written"))
                for ext in ("json", "csv"):
                    with contextlib_suppress():
                        os.unlink(f"/tmp/verif_c20_escape.{ext}")
        # ---- the concurrent batch ------------------------------------------------------------------
        procs = []
        t0 = time.time()
        order = sorted(range(len(case["invs"])), key=lambda i: case["stagger"][i])
        for i in order:
            inv = case["invs"][i]
            delay = case["stagger"][i] / 1000.0
            while time.time() - t0 < delay:
                time.sleep(0.002)
            p = sb.popen(inv["args"], inv["stdin"])
            if inv["stdin"] is not None:
                try:
                    p.stdin.write(inv["stdin"])
                    p.stdin.close()
                except BrokenPipeError:
                    pass
            procs.append((i, p))
        for i, p in procs:
            try:
                out = p.stdout.read()
                p.stderr.read()
                rc = p.wait(timeout=900)
            except Exception:  # noqa: BLE001
                p.kill()
                rc, out = -9, b""
            inv = case["invs"][i]
            ref = solo[inv_key(inv)]
            where = f"concurrent #{i} {inv['desc']} {' '.join(inv['args'])}"
            if rc != ref.rc:
                vs.append(Violation("concurrent_exit_differs", where, f"exit {rc} in the batch of {len(procs)}, {ref.rc} alone", {"desc": inv["desc"]}))
            elif out != ref.out:
                vs.append(Violation("concurrent_output_differs", where, f"stdout differs from the solitary run ({len(out)} vs {len(ref.out)} bytes)", {"desc": inv["desc"]}))
        # explicit output files of the batch: permitted, and equal to the solitary content when the target is unique
        targets = {}
        for inv in case["invs"]:
            if inv.get("outfile"):
                targets.setdefault(inv["outfile"], []).append(inv)
        for tgt, users in targets.items():
            pth = os.path.join(sb.cwd, tgt)
            contents = {outfile_content.get(inv_key(u)) for u in users}
            if os.path.isfile(pth):
                with open(pth, "rb") as fh:
                    got = fh.read()
                os.unlink(pth)
                if got not in contents:
                    vs.append(Violation("concurrent_outfile_differs", f"batch -o {tgt}", f"content written in the batch of {len(procs)} matches none of the solitary runs that target it"))
            elif any(solo[inv_key(u)].rc == 0 for u in users):
                vs.append(Violation("outfile_missing", f"batch -o {tgt}", "no file although a run targeting it succeeded alone"))
        after_cwd = climon.listing(sb.cwd)
        after_tmp = climon.listing(sb.tmp)
        if after_cwd != base:
            vs.append(Violation("cwd_changed", "batch", f"{sorted(set(after_cwd) ^ set(base))[:5]} differ after a batch of {len(procs)}"))
        if after_tmp:
            vs.append(Violation("tmp_left_behind", "batch", f"TMPDIR holds {after_tmp[:5]} after a batch of {len(procs)}"))
        n = len(case["invs"])
        keys = [inv_key(i) for i in case["invs"]]
        dup = len(keys) - len(set(keys)) >= 1
        failing = any(solo[k].rc != 0 for k in set(keys))
        r.nontrivial = (n >= 8 and dup and failing) or traced_failpath
        r.weight = n + len(solo)
        r.classes.append(f"n{(n // 8) * 8}+")
        if failing:
            r.classes.append("has_failing")
        if traced_failpath:
            r.classes.append("traced_failure_path")
        if not _STRACE:
            r.classes.append("no_strace")
        if r.nontrivial:
            r.sample = {"batch": [(i["desc"], " ".join(i["args"])) for i in case["invs"]], "exit_codes": [solo[k].rc for k in keys]}
        r.violations = vs[:6]
        return r
    finally:
        sb.close()


NAME_PROJECT = """project prj "P" 2025-01-06 +2w {
}
resource r0 "r0" {
}
task t0 "t0" {
  effort 3h
  allocate r0
}
taskreport own "%s" {
  formats %s
  columns id, end
}
"""


def name_items(shard, nshards):
    k = 0
    for name in BAD_NAMES + ["plain", "UPPER lower", "dots.in.name", "-dash", "~tilde", "sub\\back", "tab\tname", "a/./b", "a//b", "../../../../../../tmp/verif_c20_escape"]:
        for fmts in ("json", "csv", "json, csv"):
            for csvf in (False, True):
                if k % nshards == shard:
                    yield (name, fmts, csvf)
                k += 1


def eval_name(item):
    name, fmts, csvf = item
    text = NAME_PROJECT % (name, fmts)
    case = {"inputs": [("p0.tjp", text.encode(), "own:" + name)],
            "invs": [{"args": ["report"] + (["--csv"] if csvf else []) + ["p0.tjp"], "stdin": None, "desc": "own:" + name},
                     {"args": ["report"] + (["--csv"] if csvf else []) + ["-"], "stdin": text.encode(), "desc": "stdin own:" + name}],
            "stagger": [0, 5]}
    r = eval_batch(case)
    r.key = f"name {name!r} {fmts} {csvf}"
    r.nontrivial = True
    r.nt_keys = []
    r.sample = {"report_name": name, "formats": fmts, "csv": csvf}
    return r


FILE_NAMES = [os.fsdecode(b"n\xff.tjp"), os.fsdecode(b"caf\xe9.tjp"), "my plan.tjp", "Planfile", "p.TJP", "x.tjp.bak", "a'b.tjp", 'q"uote.tjp', "semi;colon.tjp",
              "uml\u00e4ut.tjp", "new\nline.tjp", "#hash.tjp", "sub dir/p.tjp"]


def file_items(shard, nshards):
    k = 0
    for name in FILE_NAMES:
        for csvf in (False, True):
            if k % nshards == shard:
                yield (name, csvf)
            k += 1


def eval_file_name(item):
    """A valid project (with and without an own report) in a file with an awkward name: traced solitary runs + a pair."""
    name, csvf = item
    text = NAME_PROJECT % ("weekly", "json, csv")
    case = {"inputs": [(name, text.encode(), "badname")],
            "invs": [{"args": ["report"] + (["--csv"] if csvf else []) + ["--", name], "stdin": None, "desc": "badname"},
                     {"args": ["report"] + (["--csv"] if not csvf else []) + ["--", name], "stdin": None, "desc": "badname other format"}],
            "stagger": [0, 3]}
    r = eval_batch(case)
    r.key = f"file name {name!r} {csvf}"
    r.nontrivial = True
    r.nt_keys = []
    r.sample = {"file_name": repr(name), "csv": csvf}
    return r


def failure_items(shard, nshards):
    k = 0
    for kind in ("stdin_nonutf8", "stdin_latin1_comment", "stdin_empty", "stdin_blank", "stdin_syntax", "stdin_truncated", "file_nonutf8", "file_empty",
                 "file_syntax", "missing", "directory", "stdin_nul", "file_bom", "stdin_huge_line"):
        for csvf in (False, True):
            if k % nshards == shard:
                yield (kind, csvf)
            k += 1


def eval_failure(item):
    """Every failure path named in the statement, alone (traced) and three at a time."""
    kind, csvf = item
    good = (NAME_PROJECT % ("weekly", "json, csv")).encode()
    data = {
        "stdin_nonutf8": good[:40] + b"\xff\xfe\x80 " + good[40:],
        "stdin_latin1_comment": b"# caf\xe9 plan\n" + good,
        "stdin_empty": b"",
        "stdin_blank": b"  \n\n",
        "stdin_syntax": good.replace(b"{", b"{ ]] ", 1),
        "stdin_truncated": good[: len(good) * 2 // 3],
        "stdin_nul": good[:30] + b"\x00\x00" + good[30:],
        "stdin_huge_line": b"# " + b"x" * 200000 + b"\n" + good,
        "file_nonutf8": good[:40] + b"\xff\xfe\x80 " + good[40:],
        "file_empty": b"",
        "file_syntax": good.replace(b"{", b"{ ]] ", 1),
        "file_bom": b"\xef\xbb\xbf" + good,
    }.get(kind, good)
    flags = ["--csv"] if csvf else []
    if kind.startswith("stdin"):
        inv = {"args": ["report"] + flags + ["-"], "stdin": data, "desc": kind}
        inputs = [("p0.tjp", good, "valid")]
    elif kind == "missing":
        inv = {"args": ["report"] + flags + ["nosuch.tjp"], "stdin": None, "desc": kind}
        inputs = [("p0.tjp", good, "valid")]
    elif kind == "directory":
        inv = {"args": ["report"] + flags + ["adir"], "stdin": None, "desc": kind, "mkdir": "adir"}
        inputs = [("p0.tjp", good, "valid")]
    else:
        inv = {"args": ["report"] + flags + ["f.tjp"], "stdin": None, "desc": kind}
        inputs = [("f.tjp", data, kind), ("p0.tjp", good, "valid")]
    ok = {"args": ["report"] + flags + ["p0.tjp"], "stdin": None, "desc": "valid"}
    case = {"inputs": inputs, "invs": [inv, ok, dict(inv), dict(inv)], "stagger": [0, 2, 0, 7]}
    r = eval_batch(case)
    r.key = f"failure path {kind} {csvf}"
    r.nontrivial = True
    r.nt_keys = []
    r.sample = {"failure_path": kind, "csv": csvf}
    return r


class contextlib_suppress:
    def __enter__(self):
        return self

    def __exit__(self, *a):
        return True


def campaigns(tier):
    q = tier == "quick"
    return [
        Campaign("batches", "hyp", evaluate=eval_batch, strategy=lambda: batches(24 if q else 96), n=16 if q else 400, shards=4 if q else 8, shrink=not q,
                 floor_nontrivial=0.2, describe="concurrent batches in one cwd/TMPDIR + traced solitary runs of every distinct invocation"),
        Campaign("file_names", "enum", evaluate=eval_file_name, items=file_items, exhaustive=True,
                 describe="a valid project in files with awkward names (not UTF-8, blanks, quotes, newline, sub-directory) x output format: traced solitary runs + a pair"),
        Campaign("failure_paths", "enum", evaluate=eval_failure, items=failure_items, exhaustive=True,
                 describe="every failure path (bad bytes on stdin / in a file, empty, blank, syntax error, truncated, missing, directory, NUL, BOM) x format: traced alone and three at a time next to a good run"),
        Campaign("report_names", "enum", evaluate=eval_name, items=name_items, exhaustive=True,
                 describe="every hostile / ordinary report name of a fixed list x formats x output format: traced solitary run + a file/stdin pair"),
    ]
