"""C12 - same input, same output: independent of history and process state."""
from __future__ import annotations

import contextlib
import io
import os
import shutil
import subprocess
import sys
import tempfile

import hypothesis
from hypothesis import HealthCheck, Phase, given, settings
from hypothesis import strategies as st
from hypothesis.stateful import RuleBasedStateMachine, initialize, precondition, rule, run_state_machine_as_test

from .. import boot, c12_common, gen, observe
from ..engine import Campaign, Found, Result, ShardOut, Violation, _split, _viol_payload
from ..spec import ReportDef, render

ID = "C12"
RULE = (
    "Histories on one long-lived interpreter (Hypothesis rule-based state machine): a pool of texts per shard - generated "
    "valid projects of different shapes (scenario counts, resolutions, zones, limits, sub-slot efforts, unequal teams, "
    "own reports), infeasible ones, syntactically broken ones, two repository fixtures, and a pair with one body whose zoned "
    "resource works on a DST-switch day, one project beginning before and one after the switch - and the operations parse-only, "
    "parse-and-schedule, schedule(handle), schedule-again(handle), generate-reports(handle), CLI-style run "
    "(ScriptPlan.run: parse, schedule twice, reports), failing parse, schedule with an injected fault (an exception "
    "raised inside the k-th task placement, as an interrupt would), drop; several handles are alive at once so "
    "operations on different projects interleave. Oracle: after every operation that yields a schedule or report for "
    "text X, its digest (dates and flags per scenario, full ledger, report JSON/CSV and written files) equals the digest "
    "of X computed in a fresh process (memoised per text). Separately the fresh-process digests under PYTHONHASHSEED in "
    "{0, 1, 2, random} and inside a spawned multiprocessing worker must be equal. Non-trivial: a compared operation was "
    "preceded in the same interpreter by a failing or faulted operation or by a project with a different scenario "
    "count, or is a re-schedule. Distinct = distinct operation sequence."
)
ASSUMPTIONS = ["'${now}' / '${today}' without a now attribute are wall-clock by definition and not generated"]

SCRATCH = os.path.join(boot.VERIF, ".build", "c12_tmp")
FRESH = os.path.join(boot.VERIF, "vlib", "c12_fresh.py")


def fresh_digest(text, workdir, hashseed="0", mp=False):
    os.makedirs(workdir, exist_ok=True)
    fd, path = tempfile.mkstemp(suffix=".tjp", dir=workdir)
    with os.fdopen(fd, "w") as f:
        f.write(text)
    env = dict(os.environ, PYTHONHASHSEED=hashseed, VERIF_REPO=boot.REPO)
    p = subprocess.run([sys.executable, FRESH, path] + (["mp"] if mp else []), env=env, capture_output=True, text=True, timeout=600)
    os.unlink(path)
    if p.returncode != 0:
        raise RuntimeError(f"fresh process failed: {p.stderr[-800:]}")
    return p.stdout.strip().split("\n")[-1]


def text_pool(seed):
    """Deterministic pool of texts for one shard."""
    profiles = [
        gen.Profile(resolutions=[30, 60], max_tasks=6, depth=2, scenarios=True, limits=True, task_limits=True, res_groups=True, weeks=(2, 4), max_slots=8),
        gen.Profile(resolutions=[10, 15], max_tasks=7, depth=2, subslot=True, odd_eff=True, unequal_teams=True, chain=True, weeks=(2, 3), max_slots=6),
        gen.Profile(resolutions=[60], max_tasks=6, depth=3, calendars=True, zones=True, crossmid=True, alap_project=True, alap_task=True, container_deps=True, weeks=(2, 4)),
        gen.Profile(resolutions=[30], max_tasks=7, depth=3, unsched=True, res_groups=True, container_work=True, dated_containers=True, weeks=(2, 3)),
        gen.Profile(resolutions=[20, 60], max_tasks=5, depth=2, subslot=True, unequal_teams=True, teams=True, alternatives=True, rates=True, weeks=(2, 3)),
    ]
    texts = []
    siblings = []

    for k, pf in enumerate(profiles):
        box = []

        @hypothesis.seed(seed * 10 + k)
        @settings(max_examples=6, database=None, deadline=None, phases=[Phase.generate], suppress_health_check=list(HealthCheck))
        @given(gen.project_specs(pf))
        def grab(spec):
            box.append(spec)

        grab()
        spec = max(box, key=lambda s: len(list(s.iter_tasks())))
        if k in (0, 3):
            # a sibling that differs only in one global holiday (same interval, same resolution)
            import copy
            from datetime import timedelta

            from ..spec import Leave

            sib = copy.deepcopy(spec)
            day = sib.start.replace(hour=0, minute=0)  # the first working day: that is where the work is
            while day.weekday() >= 5:
                day += timedelta(days=1)
            if k == 0:
                sib.vacations = list(sib.vacations) + [Leave("vacation", day, None)]
            else:  # the same through a global 'leaves' statement (kept in another structure of the project)
                sib.gleaves = list(sib.gleaves) + [Leave("leaves", day, day + timedelta(days=2), ltype="holiday")]
            sib.reports = [ReportDef(id="r1", name="sched", columns=["id", "start", "end"], formats=["json"])]
            siblings.append(("sibling%d" % k, render(sib)))
        spec.reports = [ReportDef(id="r1", name="sched", columns=["id", "start", "end", "priority"], formats=["json", "csv"]),
                        ReportDef(id="r2", name="money", columns=["id", "name", "cost"], formats=["csv"], leafonly=True)][: 1 + k % 2]
        texts.append(("valid%d" % k, render(spec)))
    texts.extend(siblings)
    # a project in which one backward task runs out of room after it has booked part of its effort, and one
    # forward task cannot finish before the (capped) horizon: the state a failed placement leaves behind
    texts.append(("overrun", f"""project prj "P" 2025-01-06 +2w {{
  timingresolution 60min
}}
resource r0 "r0" {{
  rate {10 + seed % 7}
}}
resource r1 "r1" {{
  rate 20
  limits {{ weeklymax {2 + seed % 3}h }}
}}
task a "a" {{
  effort {4 + seed % 5}h
  allocate r0
}}
task late "late" {{
  effort {50 + seed % 11}h
  allocate r0
  scheduling alap
  end 2025-01-08-17:00
}}
task b "b" {{
  effort 4h
  allocate r0
  depends a
}}
task slow "slow" {{
  effort 4000h
  allocate r1
}}
task lim "lim" {{
  effort {400 + seed % 9}h
  allocate r0
  limits {{ weeklymax 1h }}
}}
taskreport r1 "sched" {{
  formats json, csv
  columns id, start, end, cost
}}
"""))
    # two projects with the same body and a zoned resource working on the day its zone changes its offset, one
    # beginning before the switch and one after it: anything remembered per zone or per day across projects in
    # one process (rather than per project) answers differently depending on which of them ran first
    zname, zday = [("America/New_York", "2025-03-09"), ("Europe/Berlin", "2025-03-30"), ("America/New_York", "2025-11-02"),
                   ("Europe/London", "2025-10-26"), ("Australia/Sydney", "2025-10-05"), ("America/Sao_Paulo", "2018-11-04")][seed % 6]
    for tag, begin in (("zoned_before", zday), ("zoned_after", zday + "-12:00")):
        texts.append((tag, f"""project prj "P" {begin} +2w {{
  timezone "UTC"
  timingresolution 60min
}}
resource z0 "z0" {{
  timezone "{zname}"
  workinghours sun - sat {8 + seed % 3}:00 - {16 + seed % 3}:00
}}
task a "a" {{
  effort {4 + seed % 4}h
  allocate z0
}}
task b "b" {{
  effort 30h
  allocate z0
  depends a
}}
taskreport r1 "sched" {{
  formats json, csv
  columns id, start, end
}}
"""))
    fx = sorted(os.listdir(os.path.join(boot.REPO, "tests", "data")))
    for name in [f for f in fx if f.endswith(".tjp")][seed % 5:: 9][:2]:
        with open(os.path.join(boot.REPO, "tests", "data", name), errors="replace") as f:
            texts.append(("fixture:" + name, f.read()))
    broken = [("broken_syntax", texts[0][1].replace("{", "{ ]", 2)), ("broken_ref", texts[1][1].replace("allocate r0", "allocate nosuch_resource", 1)),
              ("broken_date", texts[2][1].replace("project prj \"P\" 2", "project prj \"P\" 2025-02-30 +1w { }\n# 2", 1)), ("empty", "   \n")]
    return texts, broken


class Fault(Exception):
    pass


def make_machine(out: ShardOut, state: dict, texts, broken, fresh, workdir):
    from scriptplan.core.task_scenario import TaskScenario

    class History(RuleBasedStateMachine):
        def __init__(self):
            super().__init__()
            self.handles = []  # (text index, project, scheduled?)
            self.trace = []
            self.dirty = False  # a failing / faulted / differently shaped operation happened before
            self.compared_after_dirty = 0
            self.last_shape = None

        def _check(self, op, ti, digest):
            want = fresh[ti]
            self.trace.append((op, texts[ti][0]))
            if self.dirty or op in ("schedule_again", "cli_run"):
                self.compared_after_dirty += 1
            if digest != want:
                v = Violation("history_changes_result", texts[ti][0], f"operation {op} after {len(self.trace) - 1} earlier operations gives a different schedule/report than a fresh process",
                              {"op": op})
                unknown, known = _split([v], "C12", list(self.trace))
                for k in known:
                    out.known_hits[k] += 1
                if unknown:
                    state["last"] = (list(self.trace), unknown, texts[ti][1])
                    raise Found(str(v))

        @rule(ti=st.integers(0, len(texts) - 1))
        def parse_and_schedule(self, ti):
            with contextlib.redirect_stderr(io.StringIO()):
                try:
                    prj = observe.parser().parse(texts[ti][1])
                except BaseException as e:  # noqa: BLE001
                    if isinstance(e, KeyboardInterrupt):
                        raise
                    self._check("parse_and_schedule", ti, "REJECTED:" + type(e).__name__)
                    self.dirty = True
                    return
                d = c12_common.project_digest(prj, scratch_root=workdir)
            self._check("parse_and_schedule", ti, d)
            self.handles.append((ti, prj, True))
            shape = prj.scenarioCount()
            if self.last_shape is not None and shape != self.last_shape:
                self.dirty = True
            self.last_shape = shape

        @rule(ti=st.integers(0, len(texts) - 1))
        def parse_only(self, ti):
            with contextlib.redirect_stderr(io.StringIO()):
                try:
                    prj = observe.parser().parse(texts[ti][1], schedule=False)
                except BaseException as e:  # noqa: BLE001
                    if isinstance(e, KeyboardInterrupt):
                        raise
                    self.trace.append(("parse_only_rejected", texts[ti][0]))
                    self.dirty = True
                    return
            self.trace.append(("parse_only", texts[ti][0]))
            self.handles.append((ti, prj, False))

        @precondition(lambda self: any(not h[2] for h in self.handles))
        @rule(k=st.integers(0, 50))
        def schedule_handle(self, k):
            idx = [i for i, h in enumerate(self.handles) if not h[2]]
            i = idx[k % len(idx)]
            ti, prj, _ = self.handles[i]
            with contextlib.redirect_stderr(io.StringIO()):
                try:
                    prj.schedule()
                except Exception as e:  # noqa: BLE001
                    self.handles.pop(i)
                    self._check("schedule", ti, "REJECTED:" + type(e).__name__)
                    self.dirty = True
                    return
                d = c12_common.project_digest(prj, scratch_root=workdir)
            self.handles[i] = (ti, prj, True)
            self._check("schedule", ti, d)

        @precondition(lambda self: any(h[2] for h in self.handles))
        @rule(k=st.integers(0, 50))
        def schedule_again(self, k):
            idx = [i for i, h in enumerate(self.handles) if h[2]]
            ti, prj, _ = self.handles[idx[k % len(idx)]]
            with contextlib.redirect_stderr(io.StringIO()):
                prj.schedule()
                d = c12_common.project_digest(prj, scratch_root=workdir)
            self._check("schedule_again", ti, d)

        @precondition(lambda self: any(h[2] for h in self.handles))
        @rule(k=st.integers(0, 50))
        def reports_again(self, k):
            idx = [i for i, h in enumerate(self.handles) if h[2]]
            ti, prj, _ = self.handles[idx[k % len(idx)]]
            with contextlib.redirect_stderr(io.StringIO()):
                c12_common.project_digest(prj, scratch_root=workdir)
                d = c12_common.project_digest(prj, scratch_root=workdir)
            self._check("reports_again", ti, d)

        @rule(ti=st.integers(0, len(texts) - 1))
        def cli_run(self, ti):
            from scriptplan.cli.main import ScriptPlan, create_parser

            d_out = tempfile.mkdtemp(prefix="cli_", dir=workdir)
            path = os.path.join(d_out, "in.tjp")
            with open(path, "w") as f:
                f.write(texts[ti][1])
            args = create_parser().parse_args([path, "--output-dir", d_out])
            app = ScriptPlan(args)
            buf = io.StringIO()
            with contextlib.redirect_stderr(buf), contextlib.redirect_stdout(buf):
                try:
                    app.run()
                except SystemExit:
                    pass
            if app.project is None:
                d = "REJECTED"
                ok = fresh[ti].startswith("REJECTED")
                self.trace.append(("cli_run_rejected", texts[ti][0]))
                if not ok:
                    self._check("cli_run", ti, d)
                self.dirty = True
            else:
                with contextlib.redirect_stderr(io.StringIO()):
                    d = c12_common.project_digest(app.project, scratch_root=workdir)
                self._check("cli_run", ti, d)
            shutil.rmtree(d_out, ignore_errors=True)

        @rule(bi=st.integers(0, len(broken) - 1))
        def failing_parse(self, bi):
            with contextlib.redirect_stderr(io.StringIO()):
                try:
                    observe.parser().parse(broken[bi][1])
                    self.trace.append(("failing_parse_accepted", broken[bi][0]))
                except BaseException as e:  # noqa: BLE001
                    if isinstance(e, KeyboardInterrupt):
                        raise
                    self.trace.append(("failing_parse", broken[bi][0], type(e).__name__))
            self.dirty = True

        @rule(ti=st.integers(0, len(texts) - 1), nth=st.integers(1, 6))
        def faulted_schedule(self, ti, nth):
            """schedule() is interrupted by an exception inside the nth task placement"""
            with contextlib.redirect_stderr(io.StringIO()):
                try:
                    prj = observe.parser().parse(texts[ti][1], schedule=False)
                except BaseException as e:  # noqa: BLE001
                    if isinstance(e, KeyboardInterrupt):
                        raise
                    return
                orig = TaskScenario.schedule
                count = [0]

                def boom(ts):
                    count[0] += 1
                    if count[0] == nth:
                        raise Fault("injected")
                    return orig(ts)

                TaskScenario.schedule = boom
                try:
                    prj.schedule()
                    self.trace.append(("faulted_schedule_no_fault", texts[ti][0]))
                except Fault:
                    self.trace.append(("faulted_schedule", texts[ti][0], nth))
                    self.dirty = True
                finally:
                    TaskScenario.schedule = orig

        @precondition(lambda self: len(self.handles) > 0)
        @rule(k=st.integers(0, 50))
        def drop(self, k):
            self.handles.pop(k % len(self.handles))
            self.trace.append(("drop",))

        def teardown(self):
            r = Result(key=repr(self.trace), nontrivial=self.compared_after_dirty > 0, sample={"operations": [list(x) for x in self.trace]})
            r.classes.append("compared_after_dirty" if self.compared_after_dirty else "clean_history")
            r.weight = max(1, len(self.trace))
            out.record(r)

    return History


def run(seed, shard, nshards, out: ShardOut, n):
    workdir = os.path.join(SCRATCH, f"s{shard}_{os.getpid()}")
    os.makedirs(workdir, exist_ok=True)
    try:
        texts, broken = text_pool(seed * 100 + shard)
        # ---- fresh-process references + hash seed / worker independence ------------------------
        fresh = []
        for name, text in texts:
            d0 = fresh_digest(text, workdir, "0")
            fresh.append(d0)
            variants = {"1": fresh_digest(text, workdir, "1"), "2": fresh_digest(text, workdir, "2"), "random": fresh_digest(text, workdir, "random")}
            if shard % 4 == 0:
                variants["spawned worker"] = fresh_digest(text, workdir, "0", mp=True)
            r = Result(key="hashseed " + text, nontrivial=not d0.startswith("REJECTED"), sample={"text": text[:1200], "fresh_digest": d0}, weight=1 + len(variants))
            r.classes.append("hashseed_pairs")
            for k, d in variants.items():
                if d != d0:
                    r.violations.append(Violation("process_state_changes_result", name, f"fresh-process digest under PYTHONHASHSEED=0 differs from the one under {k}", {"variant": k}))
            out.record(r)
            unknown, known = _split(r.violations, "C12", text)
            for kf in known:
                out.known_hits[kf] += 1
            if unknown and out.violation is None:
                out.violation = _viol_payload("C12", "histories", {"text": text, "kind": "hashseed"}, unknown, seed, shard, {"text": text[:1500]})
                return
        # ---- histories -----------------------------------------------------------------------------
        state = {"last": None}
        M = make_machine(out, state, texts, broken, fresh, workdir)
        per = max(1, n // nshards)
        steps = 15 if n <= 400 else 40
        try:
            run_state_machine_as_test(
                hypothesis.seed(seed * 1000 + 700 + shard)(M),
                settings=settings(max_examples=per, stateful_step_count=steps, database=None, deadline=None, report_multiple_bugs=False,
                                  phases=[Phase.generate, Phase.shrink], suppress_health_check=list(HealthCheck), print_blob=False),
            )
        except Found:
            trace, unknown, text = state["last"]
            out.violation = _viol_payload("C12", "histories", {"trace": trace, "text": text, "kind": "history", "pool_seed": seed * 100 + shard}, unknown, seed, shard,
                                          {"operations": [list(x) for x in trace], "text": text[:1500]})
    finally:
        shutil.rmtree(workdir, ignore_errors=True)


def replay_case(case):
    """Replay: the final operation's text must digest identically in-process (after the recorded kind of
    history cannot be replayed without the pool, so the pool is regenerated from its seed)."""
    r = Result(key=str(case)[:200])
    workdir = os.path.join(SCRATCH, f"replay_{os.getpid()}")
    os.makedirs(workdir, exist_ok=True)
    try:
        text = case["text"]
        d0 = fresh_digest(text, workdir, "0")
        for hs in ("1", "2"):
            if fresh_digest(text, workdir, hs) != d0:
                r.violations.append(Violation("process_state_changes_result", "replay", f"digest differs under PYTHONHASHSEED={hs}"))
        if case.get("kind") == "history":
            # replay the operations that can be mapped onto the single text: schedule twice, reports twice
            with contextlib.redirect_stderr(io.StringIO()):
                d1 = c12_common.text_digest(text, scratch_root=workdir)
                d2 = c12_common.text_digest(text, scratch_root=workdir)
            if d1 != d0 or d2 != d0:
                r.violations.append(Violation("history_changes_result", "replay", "in-process digest differs from the fresh-process digest"))
    finally:
        shutil.rmtree(workdir, ignore_errors=True)
    return r


def campaigns(tier):
    q = tier == "quick"
    return [
        Campaign("histories", "custom", run=run, evaluate=replay_case, n=160 if q else 4000, shards=8 if q else 16,
                 describe="fresh-process references under four hash seeds + rule-based state machine over parse/schedule/report/CLI/failing/faulted operations"),
    ]
