"""C01 domain A: Hypothesis state machine over book / finish-and-release episodes on one slot.

The real objects (Project, ResourceScenario, TaskScenario) are prepared exactly as
Project.schedule() prepares them; the machine then plays the caller protocol of
TaskScenario.schedule()/scheduleSlot(): set the slot cursor and the intra-slot start offset,
bookResources(), and - when the task is finished by that booking - call
_calculatePreciseEndTimeAndRelease() immediately.  A model ledger is kept to explain failures.
"""
from __future__ import annotations

import contextlib
import io

import hypothesis
from hypothesis import HealthCheck, Phase, settings
from hypothesis import strategies as st
from hypothesis.stateful import RuleBasedStateMachine, initialize, invariant, precondition, rule, run_state_machine_as_test

from .. import observe
from ..engine import Found, Result, ShardOut, Violation, _split, _viol_payload
from ..observe import EPS

EFFS = ["0.33", "0.5", "0.75", "1", "1.25", "2", "3"]
RES = [5, 10, 15, 20, 30, 60]
NT = 12


def _text(eff, res_min):
    L = [f'project p "P" 2025-01-06 +1w {{', f"  timingresolution {res_min}min", "}"]
    L.append(f'resource r "R" {{ efficiency {eff} }}')
    for i in range(NT):
        L.append(f'task t{i} "T{i}" {{ effort 1h allocate r }}')
    return "\n".join(L) + "\n"


def _prepare(eff, res_min):
    from scriptplan.core.property import AttributeBase

    prj = observe.parser().parse(_text(eff, res_min), schedule=False)
    prj._extendProjectEndIfNeeded()
    prj.initScoreboards()
    for p in [prj.accounts, prj.shifts, prj.resources, prj.tasks]:
        p.index()
    AttributeBase.setMode(1)
    prj.prepareScenario(0)
    AttributeBase.setMode(2)
    return prj


def make_machine(out: ShardOut, state: dict):
    class SlotMachine(RuleBasedStateMachine):
        def __init__(self):
            super().__init__()
            self.prj = None
            self.trace = []
            self.partial_then_book = False
            self.episodes = 0
            self.had_partial = False

        @initialize(eff=st.sampled_from(EFFS), res_min=st.sampled_from(RES))
        def setup(self, eff, res_min):
            with contextlib.redirect_stderr(io.StringIO()):
                self.prj = _prepare(eff, res_min)
            self.eff = float(eff)
            self.gran = res_min * 60
            self.res = list(self.prj.resources)[0]
            self.rs = self.res.data[0]
            self.tasks = [t for t in self.prj.tasks]
            self.free = list(range(NT))
            # first working slot of the resource (Monday 09:00)
            self.S = next(i for i in range(self.prj.scoreboardSize()) if self.rs.onShift(i))
            self.trace.append(("setup", eff, res_min))

        @precondition(lambda self: self.prj is not None and self.free)
        @rule(off_mode=st.integers(0, 2), off_units=st.integers(0, 59), need_num=st.integers(1, 1000), full=st.booleans(), slot_delta=st.integers(0, 1), forward=st.booleans())
        def episode(self, off_mode, off_units, need_num, full, slot_delta, forward):
            ti = self.free.pop(0)
            task = self.tasks[ti]
            ts = task.data[0]
            slot = self.S + slot_delta
            used = self.rs.slotSecondsUsed.get(slot, 0.0)
            if off_mode == 0:
                off = 0.0
            elif off_mode == 1:
                off = float(used)  # starts where the predecessor on this resource stopped
            else:
                off = float(min(self.gran - 60, off_units * 60)) if self.gran > 60 else 0.0
            if not forward:
                off = 0.0  # the backward walk never sets an offset
            task[("forward", 0)] = forward
            ts.currentSlotIdx = slot
            ts.slotStartOffset = off
            before = ts.doneEffort
            with contextlib.redirect_stderr(io.StringIO()):
                ts.bookResources()
                gained = ts.doneEffort - before
                if gained > 0 and not full:
                    need = gained * need_num / 1000.0
                    task[("effort", 0)] = need
                    end, secs = ts._calculatePreciseEndTimeAndRelease(need, before, forward)
                    self.had_partial = True
                    self.trace.append(("episode", ti, slot - self.S, round(off, 1), "partial", need_num, forward, round(gained, 6)))
                else:
                    if gained > 0 and self.had_partial:
                        pass
                    self.trace.append(("episode", ti, slot - self.S, round(off, 1), "full" if gained > 0 else "refused", 0, forward, round(gained, 6)))
            if gained > 0:
                self.episodes += 1
                if self.had_partial and self.episodes >= 3:
                    self.partial_then_book = True

        @rule(slot_delta=st.integers(0, 1))
        def query(self, slot_delta):
            """availability queries are side-effect free"""
            if self.prj is None:
                return
            before = (dict(self.rs.slotSecondsUsed), {k: list(v) for k, v in self.rs.slotTaskUsage.items()})
            self.rs.available(self.S + slot_delta)
            self.rs.getAvailableSecondsInSlot(self.S + slot_delta)
            after = (dict(self.rs.slotSecondsUsed), {k: list(v) for k, v in self.rs.slotTaskUsage.items()})
            if before != after:
                state["last"] = (list(self.trace), [Violation("query_side_effect", "machine", "available() changed the ledger")])
                raise Found("query_side_effect")

        @invariant()
        def ledger_ok(self):
            if self.prj is None:
                return
            vs = []
            for slot, lst in self.rs.slotTaskUsage.items():
                tot = sum(s for _t, s in lst)
                for t, s in lst:
                    if s < -EPS:
                        vs.append(Violation("negative_entry", "machine", f"slot+{slot - self.S} {t.id}={s}"))
                if tot > self.gran + 1e-6:
                    vs.append(
                        Violation(
                            "slot_overbooked",
                            "machine",
                            f"slot+{slot - self.S} holds {tot:.3f}s > {self.gran}s: " + ", ".join(f"{t.id}={s:.2f}" for t, s in lst),
                        )
                    )
            for slot, u in self.rs.slotSecondsUsed.items():
                if u < -EPS:
                    vs.append(Violation("negative_used", "machine", f"slot+{slot - self.S} used={u}"))
                if self.rs.getAvailableSecondsInSlot(slot) < 0:
                    vs.append(Violation("negative_available", "machine", f"slot+{slot - self.S}"))
            if vs:
                unknown, known = _split(vs, "C01", list(self.trace))
                for k in set(known):
                    out.known_hits[k] += 1
                if unknown:
                    state["last"] = (list(self.trace), unknown)
                    raise Found(str(unknown[0]))

        def teardown(self):
            if self.prj is None:
                return
            r = Result(key=repr(self.trace), nontrivial=self.partial_then_book, sample={"operations": [list(x) for x in self.trace]})
            r.classes.append("machine_nontrivial" if self.partial_then_book else "machine_trivial")
            out.record(r)

    return SlotMachine


def run(seed, shard, nshards, out: ShardOut, n_total=300):
    tier_n = n_total
    state = {"last": None}
    M = make_machine(out, state)
    n = max(1, tier_n // nshards)
    steps = 12 if tier_n <= 300 else 30
    try:
        run_state_machine_as_test(
            hypothesis.seed(seed * 1000 + 500 + shard)(M),
            settings=settings(
                max_examples=n,
                stateful_step_count=steps,
                database=None,
                deadline=None,
                report_multiple_bugs=False,
                phases=[Phase.generate, Phase.shrink],
                suppress_health_check=list(HealthCheck),
                print_blob=False,
            ),
        )
    except Found:
        trace, unknown = state["last"]
        out.violation = _viol_payload("C01", "machine", trace, unknown, seed, shard, {"operations": [list(x) for x in trace]})


def replay_trace(trace):
    """Re-run a saved operation sequence without Hypothesis; returns violations."""
    vs = []
    prj = None
    for op in trace:
        if op[0] == "setup":
            _, eff, res_min = op
            with contextlib.redirect_stderr(io.StringIO()):
                prj = _prepare(eff, res_min)
            gran = res_min * 60
            res = list(prj.resources)[0]
            rs = res.data[0]
            tasks = [t for t in prj.tasks]
            S = next(i for i in range(prj.scoreboardSize()) if rs.onShift(i))
        else:
            _, ti, sd, off, mode, need_num, forward, _g = op
            task = tasks[ti]
            ts = task.data[0]
            task[("forward", 0)] = forward
            ts.currentSlotIdx = S + sd
            ts.slotStartOffset = off
            before = ts.doneEffort
            with contextlib.redirect_stderr(io.StringIO()):
                ts.bookResources()
                gained = ts.doneEffort - before
                if gained > 0 and mode == "partial":
                    need = gained * need_num / 1000.0
                    task[("effort", 0)] = need
                    ts._calculatePreciseEndTimeAndRelease(need, before, forward)
            for slot, lst in rs.slotTaskUsage.items():
                tot = sum(s for _t, s in lst)
                if tot > gran + 1e-6:
                    vs.append(Violation("slot_overbooked", "machine", f"slot+{slot - S} holds {tot:.3f}s > {gran}s"))
                for t, s in lst:
                    if s < -EPS:
                        vs.append(Violation("negative_entry", "machine", f"slot+{slot - S} {t.id}={s}"))
            for slot, u in rs.slotSecondsUsed.items():
                if u < -EPS:
                    vs.append(Violation("negative_used", "machine", f"slot+{slot - S} used={u}"))
    return vs
