"""C19 - the plan CLI honours its output contract."""
from __future__ import annotations

import csv
import hashlib
import io
import json
import os
from dataclasses import replace

from hypothesis import strategies as st

from .. import climon, gen, observe
from ..engine import Campaign, Result, Violation
from ..spec import ReportDef, render

ID = "C19"
RULE = (
    "Real subprocess runs of the plan entry point ('plan report ...', scriptplan.cli.plan:main of the tree under test) "
    "in a private working directory and TMPDIR. Inputs: generated valid projects without reports and with 1-2 own "
    "reports (json and/or csv, other columns and time formats, names sorting before and after 'plan_auto_'), projects "
    "with unschedulable tasks; channels file / '-' / no argument; --csv or not; LF and CRLF; input files named *.tjp and "
    "otherwise (no suffix, other suffix, upper case, blank in the name, sub-directory, leading dash); --verbose / --quiet. Bad input classes: missing "
    "path, directory, empty file, whitespace-only stdin, syntax error, unresolved resource, truncated text. Oracle, "
    "success: exit 0; stdout is exactly one JSON document with keys data, columns == [id,start,end] and report_id == "
    "sha256(input bytes) (or CSV with header Id,Start,End); rows = all tasks in declaration order with the dates of "
    "an independent in-process observation formatted %Y-%m-%d-%H:%M (empty for unscheduled tasks); identical data for "
    "file and stdin and with / without own reports in the input; every diagnostic on stderr. Failure: exit 1 for "
    "missing / directory / empty input, exit 2 for text the parser rejects; stdout empty, stderr non-empty, no "
    "traceback anywhere on stdout. Non-trivial: the input defines an own report in the requested format, or comes "
    "from stdin, or is a failure class. Distinct = distinct (input bytes, channel, format)."
)
ASSUMPTIONS = ["report names of own reports are plain file names", "input is valid UTF-8 (other encodings belong to the failure classes of C20)"]

PF = gen.Profile(resolutions=[30, 60], min_tasks=1, max_tasks=6, max_res=2, depth=2, subslot=True, deps=0.5, unsched=True, alap_project=True,
                 weeks=(2, 4), max_slots=8, leaves=True, teams=True)

FAILS = ["missing", "directory", "empty", "blank_stdin", "syntax", "truncated", "no_project"]


@st.composite
def cases(draw):
    kind = draw(st.sampled_from(["ok", "ok", "ok", "ok", "fail"]))
    csvf = draw(st.booleans())
    if kind == "fail":
        return {"kind": "fail", "fail": draw(st.sampled_from(FAILS)), "csv": csvf, "spec": draw(gen.project_specs(PF))}
    spec = draw(gen.project_specs(PF))
    own = []
    for i in range(draw(st.integers(0, 2))):
        name = draw(st.sampled_from(["aaa", "zzz", "plan", "Plan_auto", "report1", "out put", "plan_auto_x"])) + str(i)
        cols = draw(st.lists(st.sampled_from(["name", "id", "end", "start", "priority"]), min_size=1, max_size=3, unique=True))
        own.append(ReportDef(id=f"own{i}", name=name, columns=cols, formats=draw(st.sampled_from([[], ["json"], ["csv"], ["json", "csv"]])),
                             timeformat=draw(st.sampled_from([None, "%d.%m.%Y", "%Y-%m-%d"]))))
    return {"kind": "ok", "spec": spec, "own": own, "csv": csvf, "channel": draw(st.sampled_from(["file", "dash", "noarg"])),
            "glob": draw(st.sampled_from([[], [], ["--verbose"], ["--quiet"]])),
            "crlf": draw(st.booleans()), "tf": draw(st.sampled_from([None, "%d.%m.%y"])),
            "fname": draw(st.sampled_from(["p.tjp", "p.tjp", "p.tjp", "Planfile", "demo.tjp.v2", "p.TJP", "my plan.tjp", "p.txt", "sub/p.tjp", "-p.tjp",
                                            "Zeitplan_M\u00e4rz.tjp", "\u8a08\u753b.tjp", "new\nline.tjp", "a'b.tjp"])),
            "no_tasks": draw(st.integers(0, 9)) == 0}


def parse_stdout(out: bytes, csvf: bool):
    """-> (rows [(id,start,end)], report_id or None, error or None)"""
    try:
        text = out.decode("utf-8")
    except UnicodeDecodeError:
        return None, None, "stdout is not UTF-8"
    if csvf:
        rows = list(csv.reader(io.StringIO(text)))
        while rows and rows[-1] == []:
            rows.pop()
        if not rows or rows[0] != ["Id", "Start", "End"]:
            return None, None, f"CSV header {rows[0] if rows else None}"
        bad = [r for r in rows[1:] if len(r) != 3]
        if bad:
            return None, None, f"CSV row with {len(bad[0])} cells: {bad[0]}"
        return [tuple(r) for r in rows[1:]], None, None
    try:
        doc = json.loads(text)
    except json.JSONDecodeError as e:
        return None, None, f"stdout is not one JSON document: {e} / {text[:120]!r}"
    if not isinstance(doc, dict) or set(doc) != {"data", "columns", "report_id"}:
        return None, None, f"JSON keys {sorted(doc) if isinstance(doc, dict) else type(doc).__name__}"
    if doc["columns"] != ["id", "start", "end"]:
        return None, doc.get("report_id"), f"columns {doc['columns']}"
    try:
        rows = [(d["id"], d["start"], d["end"]) for d in doc["data"]]
    except Exception:  # noqa: BLE001
        return None, doc.get("report_id"), f"malformed data records {str(doc['data'])[:120]}"
    return rows, doc["report_id"], None


def expected_rows(text: str):
    obs = observe.observe(text)
    if not obs.ok:
        return None, obs
    rows = []
    for t in obs.scen[0].tasks:
        f = lambda d: d.strftime("%Y-%m-%d-%H:%M") if (d is not None and t.scheduled) else ""  # noqa: E731
        rows.append((".".join(t.path), f(t.start), f(t.end)))
    return rows, obs


def eval_case(case):
    csvf = case["csv"]
    flags = ["--csv"] if csvf else []
    sb = climon.Sandbox()
    r = Result()
    vs = []
    try:
        if case["kind"] == "fail":
            fk = case["fail"]
            text = render(case["spec"])
            stdin = None
            if fk == "missing":
                args, want = ["report"] + flags + ["nosuch.tjp"], 1
            elif fk == "directory":

                os.makedirs(sb.cwd + "/adir.tjp")
                args, want = ["report"] + flags + ["adir.tjp"], 1
            elif fk == "empty":
                sb.write("e.tjp", b"")
                args, want = ["report"] + flags + ["e.tjp"], 1
            elif fk == "blank_stdin":
                args, want, stdin = ["report"] + flags + ["-"], 1, b"  \n\t\n"
            elif fk == "syntax":
                sb.write("s.tjp", text.replace("{", "{ }} ", 1).encode())
                args, want = ["report"] + flags + ["s.tjp"], 2
            elif fk == "truncated":
                sb.write("t.tjp", text[: max(20, len(text) * 2 // 3)].rsplit("}", 1)[0].encode())
                args, want = ["report"] + flags + ["t.tjp"], 2
            else:  # no project header at all
                sb.write("n.tjp", b'task a "A" { }\n')
                args, want = ["report"] + flags + ["n.tjp"], 2
            before = climon.listing(sb.cwd)
            run = sb.run(args, stdin=stdin)
            r.key = f"fail {fk} {flags} " + text[:200]
            if run.rc != want:
                vs.append(Violation("exit_code", fk, f"exit {run.rc}, expected {want}; stderr {run.err[-200:]!r}"))
            if run.out.strip():
                vs.append(Violation("stdout_not_empty_on_failure", fk, f"stdout {run.out[:200]!r}"))
            if not run.err.strip():
                vs.append(Violation("stderr_empty_on_failure", fk, "no diagnostic on stderr"))
            if b"Traceback" in run.out:
                vs.append(Violation("traceback_on_stdout", fk, run.out[:200].decode(errors="replace")))
            r.nontrivial = True
            r.classes.append("fail:" + fk)
            r.sample = {"failure_class": fk, "args": args, "exit": run.rc}
            r.violations = vs
            return r
        # ---- success classes ----------------------------------------------------------------------
        spec = case["spec"]
        if case["tf"]:
            spec = replace(spec, timeformat=case["tf"])
        if case.get("no_tasks"):
            spec = replace(spec, tasks=[])  # a valid project that defines no task: an empty report, not an error
        base_text = render(spec)
        text = render(replace(spec, reports=list(case["own"])))
        if case["crlf"]:
            text = text.replace("\n", "\r\n")
        data = text.encode("utf-8")
        want_rows, obs = expected_rows(base_text)
        r.key = f"{case['channel']} {flags} " + text
        if want_rows is None:
            r.classes.append("api_rejects")
            return r  # the API itself rejects the text: C11's business
        fname = case.get("fname", "p.tjp")
        farg = ["--", fname] if fname.startswith("-") else [fname]
        if "/" in fname:
            os.makedirs(os.path.join(sb.cwd, os.path.dirname(fname)), exist_ok=True)
        sb.write(fname, data)
        ch = case["channel"]
        gl = case.get("glob", [])
        if ch == "file":
            run = sb.run(gl + ["report"] + flags + farg)
        elif ch == "dash":
            run = sb.run(gl + ["report"] + flags + ["-"], stdin=data)
        else:
            run = sb.run(gl + ["report"] + flags, stdin=data)
        where = f"{ch}{' --csv' if csvf else ''}"
        if run.rc != 0:
            vs.append(Violation("exit_code", where, f"exit {run.rc} for a valid project; stderr {run.err[-300:]!r}", {"own": len(case["own"])}))
        else:
            rows, rid, err = parse_stdout(run.out, csvf)
            if err:
                vs.append(Violation("stdout_malformed", where, err, {"own_formats": [o.formats for o in case["own"]]}))
            else:
                if not csvf and rid != hashlib.sha256(data).hexdigest():
                    vs.append(Violation("report_id", where, f"report_id {rid}, sha256(input) {hashlib.sha256(data).hexdigest()}", {"crlf": case["crlf"]}))
                if rows != want_rows:
                    k = next((i for i, (a, b) in enumerate(zip(rows, want_rows)) if a != b), min(len(rows), len(want_rows)))
                    vs.append(Violation("rows_differ", where, f"{len(rows)} rows vs {len(want_rows)} expected; first difference at row {k}: "
                                        f"{rows[k] if k < len(rows) else None} vs {want_rows[k] if k < len(want_rows) else None}",
                                        {"own_formats": [o.formats for o in case["own"]], "own_names": [o.name for o in case["own"]]}))
            if b"Traceback" in run.out:
                vs.append(Violation("traceback_on_stdout", where, run.out[:200].decode(errors="replace")))
            # the other channel must give the same data
            other = sb.run(["report"] + flags + (["-"] if ch == "file" else farg), stdin=data if ch == "file" else None)
            if other.rc != run.rc:
                vs.append(Violation("channel_exit_differs", where, f"exit {run.rc} vs {other.rc} through the other channel"))
            elif other.out != run.out:
                vs.append(Violation("channel_output_differs", where, "stdout differs between file and stdin input"))
        own_fmt = any(("csv" if csvf else "json") in (o.formats or ["json"]) for o in case["own"])
        r.nontrivial = own_fmt or ch != "file"
        r.classes += [ch, "csv" if csvf else "json"] + (["no_tasks"] if case.get("no_tasks") else []) + ([] if fname == "p.tjp" else ["other_file_name"]) + [g.strip("-") for g in case.get("glob", [])] + (["own_report_same_format"] if own_fmt else []) + (["crlf"] if case["crlf"] else [])
        if any(not t.scheduled for t in obs.scen[0].tasks):
            r.classes.append("unschedulable_tasks")
        if r.nontrivial:
            r.sample = {"args": ["report"] + flags + [ch], "input": text[:1500]}
        r.violations = vs
        return r
    finally:
        sb.close()


def campaigns(tier):
    q = tier == "quick"
    return [
        Campaign("cli", "hyp", evaluate=eval_case, strategy=cases, n=260 if q else 5000, shrink=not q, floor_nontrivial=0.3,
                 describe="subprocess runs of 'plan report' over valid projects (file/stdin, json/csv, own reports, CRLF) and bad-input classes"),
    ]
