"""C05 - daily and weekly limits are never exceeded."""
from __future__ import annotations

from collections import defaultdict
from dataclasses import replace
from datetime import datetime, timedelta
from fractions import Fraction

from .. import gen, observe, rules
from ..engine import Campaign, Result, Violation
from ..observe import EPS
from ..spec import render

ID = "C05"
RULE = (
    "Generated projects with dailymax / weeklymax on resources, resource groups, tasks and task groups (optionally "
    "qualified with {resources ...}), limit values incl. values that are not whole slots, resolutions 15-60 min, "
    "ASAP and ALAP, declared project lengths from 2 days (forcing the horizon extension) to several years starting "
    "in late December (53-week ISO years). Oracle, from the usage ledger over the whole scheduled horizon: seconds "
    "booked per calendar day <= dailymax and per ISO week <= weeklymax for every limited resource, for all leaf "
    "members of a limited group together, and for all leaf tasks below a limited task (restricted to the named "
    "resources if qualified). Non-trivial: some (limit, period) is saturated (booked >= limit - one slot), i.e. the "
    "limit shaped the schedule; classes record saturation beyond the declared project end and in another ISO year "
    "than the project start. Distinct = distinct rendered text."
)
ASSUMPTIONS = ["project zone UTC: calendar days and ISO weeks are taken in UTC", "limit values are written in hours"]

STARTS = [datetime(2025, 1, 6), datetime(2020, 12, 28), datetime(2026, 12, 21), datetime(2025, 12, 29), datetime(2024, 12, 23),
          datetime(2032, 12, 27), datetime(2025, 6, 2), datetime(2026, 12, 28), datetime(2021, 1, 1), datetime(2027, 1, 1)]

PF = gen.Profile(
    resolutions=[15, 30, 60],
    min_tasks=2,
    max_tasks=7,
    max_res=3,
    depth=3,
    subslot=False,
    deps=0.3,
    limits=True,
    task_limits=True,
    res_groups=True,
    alap_project=True,
    weeks=(2, 8),
    max_slots=30,
    teams=True,
    leaves=True,
    starts=STARTS,
    start_tod=True,
)
PF_SHORT = replace(PF, durs=[(2, "d"), (3, "d"), (5, "d"), (1, "w")], alap_project=False, max_slots=40, leaves=False)
PF_LONG = replace(PF, resolutions=[60], durs=[(1, "y"), (2, "y"), (3, "y"), (14, "m"), (60, "w")], max_tasks=5, max_res=2,
                  starts=[datetime(2020, 12, 21), datetime(2026, 12, 14), datetime(2025, 12, 22), datetime(2024, 12, 16), datetime(2025, 11, 3)], max_slots=60)
PF_SUB = replace(PF, subslot=True, odd_eff=True, max_slots=12)


def limit_violations(spec, obs, sc_idx=0):
    vs = []
    sc = obs.scen[sc_idx]
    gran = obs.gran
    rmap = spec.res_map()
    tmap = spec.task_map()
    # usage[(rid)][day] etc. from the ledger
    per_res_slot = {}
    for rid, led in sc.ledger.items():
        for slot, lst in led.items():
            for p, s in lst:
                if s > EPS:
                    per_res_slot.setdefault(rid, []).append((slot, p, s))
    declared_end = obs.declared_end
    start_iso_year = obs.start.isocalendar()[0]
    classes = set()
    nontrivial = False

    def periods(entries, name):
        acc = defaultdict(float)
        for slot, _p, s in entries:
            t = observe.slot_time(obs, slot)
            if name == "dailymax":
                key = t.date()
            else:
                iso = t.isocalendar()
                key = (iso[0], iso[1])
            acc[key] += s
        return acc

    def judge(owner, lim, entries):
        nonlocal nontrivial
        cap = float(lim.seconds())
        acc = periods(entries, lim.name)
        for key, used in sorted(acc.items()):
            if used >= cap - gran - 1e-6:
                nontrivial = True
                classes.add("saturated_" + lim.name)
                # where is the saturated period?
                if lim.name == "dailymax":
                    pstart = datetime(key.year, key.month, key.day)
                    other_year = pstart.isocalendar()[0] != start_iso_year
                else:
                    pstart = datetime.fromisocalendar(key[0], key[1], 1)
                    other_year = key[0] != start_iso_year
                if declared_end and pstart >= declared_end:
                    classes.add("saturated_beyond_declared_end")
                if other_year:
                    classes.add("saturated_other_iso_year")
            if used > cap + 1e-3:
                beyond = ""
                if lim.name == "dailymax" and declared_end and datetime(key.year, key.month, key.day) >= declared_end:
                    beyond = " (beyond the declared project end)"
                if lim.name == "weeklymax" and declared_end and datetime.fromisocalendar(key[0], key[1], 1) >= declared_end:
                    beyond = " (beyond the declared project end)"
                vs.append(Violation("limit_exceeded", owner, f"{lim.name} {lim.hours}{lim.unit}: {used / 3600:.3f}h booked in {key}{beyond}",
                                    {"limit": lim.name, "beyond": bool(beyond), "owner": owner}))
                return

    # resource and resource-group limits
    for rid, (r, anc) in rmap.items():
        if not r.limits:
            continue
        members = spec.leaf_res_ids(rid)
        entries = [e for m in members for e in per_res_slot.get(m, [])]
        for lim in r.limits:
            judge(("group " if r.children else "resource ") + rid, lim, entries)
    # task and task-group limits
    for p, t in spec.iter_tasks():
        if not t.limits:
            continue
        for lim in t.limits:
            owner = ("task group " if t.children else "task ") + ".".join(p)
            if lim.resources:
                # TaskJuggler: a limit restricted to a list of resources applies to each listed
                # (leaf) resource individually
                for x in lim.resources:
                    for rid in spec.leaf_res_ids(x):
                        entries = [e for e in per_res_slot.get(rid, []) if e[1][: len(p)] == p]
                        judge(owner + f" {{resources {rid}}}", lim, entries)
            else:
                entries = []
                for rid, es in per_res_slot.items():
                    entries.extend(e for e in es if e[1][: len(p)] == p)
                judge(owner, lim, entries)
    return vs, nontrivial, classes


def eval_project(spec):
    text = render(spec)
    obs = observe.observe(text)
    r = Result(key=text)
    if not obs.ok:
        r.classes.append("exc:" + obs.exc_bucket)
        return r
    vs, nt, classes = limit_violations(spec, obs)
    r.violations = vs
    r.nontrivial = nt
    r.classes.extend(sorted(classes))
    r.classes.append("alap" if spec.sched == "alap" else "asap")
    if obs.end and obs.declared_end and obs.end > obs.declared_end:
        r.classes.append("horizon_extended")
    if nt:
        r.sample = text
    return r


def campaigns(tier):
    q = tier == "quick"
    return [
        Campaign("limits", "hyp", evaluate=eval_project, strategy=lambda: gen.project_specs(PF), n=2400 if q else 24000, floor_nontrivial=0.2,
                 describe="D4: resource / group / task / task-group limits, 2-8 week projects around year ends, ASAP and ALAP"),
        Campaign("short_declared", "hyp", evaluate=eval_project, strategy=lambda: gen.project_specs(PF_SHORT), n=400 if q else 8000,
                 describe="declared length 2-7 days with work that overruns it (horizon extension)"),
        Campaign("multi_year", "hyp", evaluate=eval_project, strategy=lambda: gen.project_specs(PF_LONG), n=120 if q else 2500,
                 describe="1-3 year projects at 1 h resolution starting before 53-week / ordinary year ends"),
        Campaign("limits_subslot", "hyp", evaluate=eval_project, strategy=lambda: gen.project_specs(PF_SUB), n=300 if q else 6000,
                 describe="limits combined with sub-slot efforts and fractional efficiencies"),
    ]
