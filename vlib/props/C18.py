"""C18 - reports say what was scheduled."""
from __future__ import annotations

import contextlib
import csv
import io
import json
import os
import shutil
import tempfile
from dataclasses import replace

from hypothesis import strategies as st

from .. import boot, gen, observe
from ..engine import Campaign, Result, Violation
from ..observe import EPS
from ..spec import ReportDef, render

ID = "C18"
RULE = (
    "Generated scheduled projects (containers, unscheduled leaves, teams, alternatives, resource rates, sub-slot "
    "efforts, ASAP and ALAP) carrying 1-3 task reports: column subsets of {id, name, start, end, priority, cost, "
    "effort} with optional column titles, timeformat on the project and/or the report (incl. a report that explicitly "
    "chooses %Y-%m-%d), leaftasksonly true/false/absent, formats subset of {json, csv}; reports are generated 1-5 "
    "times in a generated order through the API (Report.generate into a scratch directory, to_json, to_csv). Oracle: "
    "rows = tasks in declaration order (leaves only if requested); each cell = the task's value from the independent "
    "observation of the schedule rendered with the effective time format (report's, else project's, else %Y-%m-%d); "
    "unscheduled tasks without a date of their own show empty start/end; JSON columns = lower-cased CSV header and JSON "
    "records = CSV body cell by cell; the generated files carry the same cells; leaf cost = sum of booked seconds x "
    "rate / 3600 with two decimals (empty when 0); the schedule digest (dates + ledger) is the same before and after all "
    "generations. Non-trivial: a report with a date column on a project with a container and a task whose date has a "
    "non-zero time of day, or a cost column with >= 2 differently rated resources. Distinct = distinct text + order."
)
ASSUMPTIONS = [
    "sorttasks, hidetask, taskroot, resource/text reports are outside the statement",
    "report names are plain file names (no path separators)",
]

TIMEFORMATS = ["%Y-%m-%d", "%Y-%m-%d %H:%M", "%d.%m.%Y", "%Y-%m-%d-%H:%M", "%a %d %b %Y %H:%M:%S", "%H:%M %j"]
COLS = ["id", "name", "start", "end", "priority", "cost", "effort"]

PF = gen.Profile(
    resolutions=[15, 30, 60],
    min_tasks=2,
    max_tasks=8,
    max_res=3,
    depth=3,
    subslot=True,
    odd_eff=False,
    deps=0.5,
    alternatives=True,
    teams=True,
    rates=True,
    unsched=True,
    res_groups=False,
    alap_project=True,
    weeks=(2, 4),
    max_slots=8,
    leaves=True,
)


@st.composite
def cases(draw):
    spec = draw(gen.project_specs(PF))
    if draw(st.booleans()):
        spec.timeformat = draw(st.sampled_from(TIMEFORMATS))
    for _p, t in spec.iter_tasks():
        if draw(st.integers(0, 2)) == 0:
            t.name = draw(st.sampled_from(["Design, build and review", "Alpha; beta", "it's", " padded ", "Prüfung", "a,b,,c", "tab\there", "100%", "x" * 60]))
    nrep = draw(st.integers(1, 3))
    for i in range(nrep):
        cols = draw(st.lists(st.sampled_from(COLS), min_size=1, max_size=5, unique=True))
        rp = ReportDef(id=f"rep{i}", name=f"out{i}", columns=cols)
        rp.formats = draw(st.sampled_from([[], ["json"], ["csv"], ["json", "csv"], ["csv", "json"]]))
        if draw(st.booleans()):
            rp.timeformat = draw(st.sampled_from(TIMEFORMATS))
        rp.leafonly = draw(st.sampled_from([None, True, False]))
        if draw(st.integers(0, 3)) == 0:
            c = draw(st.sampled_from(cols))
            rp.title_cols[c] = draw(st.sampled_from(["Task", "Begin", "My Col", "ID", "x"]))
        spec.reports.append(rp)
    order = draw(st.lists(st.integers(0, nrep - 1), min_size=1, max_size=5))
    return (spec, order)


def fmt_expected(value, fmt):
    return "" if value is None else value.strftime(fmt)


def eval_case(case):
    spec, order = case
    text = render(spec)
    r = Result(key=text + f"\n# order {order}")
    obs = observe.observe(text, keep_project=True)
    if not obs.ok:
        r.classes.append("exc:" + obs.exc_bucket)
        return r
    project = obs.project
    before = obs.digest(with_ledger=True)
    sc = obs.scen[0]
    tm = sc.tmap()
    tmap = spec.task_map()
    rmap = spec.res_map()
    vs = []
    from scriptplan.report import ReportContext

    outdir = tempfile.mkdtemp(prefix="c18_", dir=os.path.join(boot.VERIF, ".build"))
    project.outputDir = outdir
    reports = {rp.id: rp for rp in project.reports}
    try:
        for gi, ri in enumerate(order):
            rd = spec.reports[ri]
            rep = reports.get(rd.id)
            if rep is None:
                vs.append(Violation("report_missing", rd.id, "report of the model not present in the project"))
                continue
            err = io.StringIO()
            ctx = ReportContext(project, rep)
            ctx.push()
            try:
                with contextlib.redirect_stderr(err):
                    rep.generate()
                    j = rep.to_json()
                    c = rep.to_csv()
            except Exception as e:  # noqa: BLE001
                vs.append(Violation("report_generation_raised", rd.id, f"{type(e).__name__}: {str(e)[:200]}"))
                continue
            finally:
                ctx.pop()
            where = f"{rd.id} (generation {gi + 1})"
            fmt = rd.timeformat or spec.timeformat or "%Y-%m-%d"
            rows = [p for p, t in spec.iter_tasks() if not (rd.leafonly and t.children)]
            header = [rd.title_cols.get(col, {"id": "Id", "name": "Name", "start": "Start", "end": "End", "priority": "Priority", "cost": "Cost", "effort": "Effort"}[col]) for col in rd.columns]
            if c is None or j is None:
                vs.append(Violation("no_table", where, "to_json()/to_csv() returned nothing"))
                continue
            default_header = [{"id": "Id", "name": "Name", "start": "Start", "end": "End", "priority": "Priority", "cost": "Cost", "effort": "Effort"}[col] for col in rd.columns]
            if c[0] != header and c[0] != default_header:
                vs.append(Violation("csv_header", where, f"header {c[0]}, expected {header}"))
                continue
            header = c[0]  # a column title option may or may not be honoured: outside the statement
            if j.get("columns") != [h.lower() for h in header]:
                vs.append(Violation("json_columns", where, f"columns {j.get('columns')}, expected {[h.lower() for h in header]}"))
            body = c[1:]
            if len(body) != len(rows):
                vs.append(Violation("row_count", where, f"{len(body)} rows for {len(rows)} tasks (leaftasksonly={rd.leafonly})"))
                continue
            recs = j.get("data", [])
            if len(recs) != len(body):
                vs.append(Violation("json_csv_rows", where, f"{len(recs)} JSON records vs {len(body)} CSV rows"))
            for k, p in enumerate(rows):
                t = tmap[p]
                to = tm[p]
                line = body[k]
                for ci, col in enumerate(rd.columns):
                    cell = line[ci]
                    exp = None
                    if col == "id":
                        exp = ".".join(p)
                    elif col == "name":
                        exp = t.name or t.id
                    elif col in ("start", "end"):
                        val = to.start if col == "start" else to.end
                        own = t.start if col == "start" else t.end
                        if not to.scheduled:
                            if own is not None or any(tmap[p[:q]].start is not None for q in range(1, len(p))):
                                continue  # a date the user wrote: not judged
                            exp = ""
                        else:
                            exp = fmt_expected(val, fmt)
                    elif col == "priority":
                        pr = None
                        for q in range(len(p), 0, -1):
                            if tmap[p[:q]].priority is not None:
                                pr = tmap[p[:q]].priority
                                break
                        exp = str(pr if pr is not None else 500)
                    elif col == "cost":
                        if t.children:
                            continue
                        tot = 0.0
                        for rid, led in sc.ledger.items():
                            rate = float(rmap[rid][0].rate) if rid in rmap and rmap[rid][0].rate else 0.0
                            for _slot, lst in led.items():
                                for q, s in lst:
                                    if q == p:
                                        tot += s * rate / 3600.0
                        if tot <= 0.005:
                            if cell not in ("", "0.00"):
                                vs.append(Violation("cell_value", where, f"task {'.'.join(p)} column cost: '{cell}', expected empty (nothing billed)"))
                            continue
                        try:
                            if abs(float(cell) - tot) > 0.011:
                                vs.append(Violation("cell_value", where, f"task {'.'.join(p)} column cost: '{cell}', expected {tot:.2f}", {"col": "cost", "alt": bool(t.alt)}))
                        except ValueError:
                            vs.append(Violation("cell_value", where, f"task {'.'.join(p)} column cost: '{cell}', expected {tot:.2f}", {"col": "cost", "alt": bool(t.alt)}))
                        continue
                    elif col == "effort":
                        if t.children or t.effort is None:
                            continue
                        try:
                            if abs(float(cell) - float(t.effort_min()) / 60.0) > 0.0051:
                                vs.append(Violation("cell_value", where, f"task {'.'.join(p)} column effort: '{cell}', expected {float(t.effort_min()) / 60.0:.2f}"))
                        except ValueError:
                            vs.append(Violation("cell_value", where, f"task {'.'.join(p)} column effort: '{cell}' is not a number"))
                        continue
                    if exp is not None and cell != exp:
                        vs.append(Violation("cell_value", where, f"task {'.'.join(p)} column {col}: '{cell}', expected '{exp}' (format {fmt}, scheduled={to.scheduled})",
                                            {"col": col, "scheduled": to.scheduled}))
                    if k < len(recs):
                        jc = recs[k].get(header[ci].lower())
                        if jc != cell:
                            vs.append(Violation("json_csv_cell", where, f"task {'.'.join(p)} column {col}: JSON '{jc}' vs CSV '{cell}'"))
            # files
            fmts = rd.formats or ["json"]
            for f in fmts:
                path = os.path.join(outdir, f"{rd.name}.{f}")
                if not os.path.exists(path):
                    vs.append(Violation("file_missing", where, f"{rd.name}.{f} not written"))
                    continue
                if f == "json":
                    with open(path) as fh:
                        fj = json.load(fh)
                    if fj.get("data") != j.get("data") or fj.get("columns") != j.get("columns"):
                        vs.append(Violation("file_cells", where, f"{rd.name}.json differs from to_json()"))
                else:
                    with open(path, newline="") as fh:
                        fc = list(csv.reader(fh))
                    if fc != [list(map(str, row)) for row in c]:
                        vs.append(Violation("file_cells", where, f"{rd.name}.csv differs from to_csv()"))
            if len(vs) > 6:
                break
        after_obs = observe.Observation(ok=True)
        observe.extract(project, after_obs)
        if after_obs.digest(with_ledger=True) != before:
            vs.append(Violation("report_changed_schedule", "project", f"schedule digest differs after generating reports in order {order}"))
    finally:
        shutil.rmtree(outdir, ignore_errors=True)
    r.violations = vs[:6]
    has_container = any(t.children for _p, t in spec.iter_tasks())
    tod = any((t.start and (t.start.hour or t.start.minute)) or (t.end and (t.end.hour or t.end.minute)) for t in sc.tasks)
    date_col = any(set(rd.columns) & {"start", "end"} for rd in spec.reports)
    rates = {r_.rate for _p, r_, _a in spec.iter_res() if r_.rate}
    cost_col = any("cost" in rd.columns for rd in spec.reports)
    r.nontrivial = bool((date_col and has_container and tod) or (cost_col and len(rates) >= 2))
    r.classes.append("repeat" if len(order) > len(set(order)) else "once")
    if any(not t.scheduled for t in sc.tasks):
        r.classes.append("has_unscheduled")
    if r.nontrivial:
        r.sample = {"text": text, "generation_order": order}
    return r


def campaigns(tier):
    q = tier == "quick"
    return [
        Campaign("reports", "hyp", evaluate=eval_case, strategy=cases, n=2400 if q else 30000, floor_nontrivial=0.2,
                 describe="task reports (json/csv, columns, formats, leaf filter) generated repeatedly via the API and compared with the observed schedule"),
    ]
