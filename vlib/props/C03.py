"""C03 - a scheduled task receives exactly its effort."""
from __future__ import annotations

from dataclasses import replace
from fractions import Fraction

from .. import gen, observe, rules
from ..engine import Campaign, Result, Violation
from ..observe import EPS, task_slots
from ..spec import render

ID = "C03"
RULE = (
    "Generated projects (efforts in min/h/d incl. primes of minutes and fractions of a slot, efficiencies 0.1..4 with "
    "two decimals, contention on shared resources, teams of equal efficiency, alternatives, ASAP and ALAP, six "
    "resolutions). Oracle per *scheduled* leaf effort task: sum over slots of booked seconds x efficiency equals the "
    "requested effort within one second of work; team members have identical slot sets and identical seconds per "
    "slot; with alternatives the booked resources are a subset of the primaries or of the alternatives, never both; "
    "no real booking for unscheduled... is not required. Non-trivial: the effort is not a whole number of slots at the "
    "resource's efficiency, or the task is a team/alternative task, or its first slot is shared with another task. "
    "Distinct = distinct rendered project text."
)
ASSUMPTIONS = [
    "teams of unequal efficiency are generated only for the same-instants clause (which member's efficiency converts time to effort is not defined by the property)",
    "ledger entries <= 1e-6 s are floating-point residue, not a further slot (a surplus slot that changes a reported date is C06/C07's business)",
]

PF = gen.Profile(
    resolutions=[5, 10, 15, 20, 30, 60],
    min_tasks=2,
    max_tasks=8,
    max_res=3,
    depth=2,
    subslot=True,
    odd_eff=True,
    deps=0.5,
    alternatives=True,
    alap_project=True,
    alap_task=False,
    chain=True,
    weeks=(2, 4),
    max_slots=8,
)
PF_WHOLE = replace(PF, subslot=False, odd_eff=False, chain=False, alap_task=True, max_slots=12)
PF_TEAMLIM = replace(PF, subslot=False, odd_eff=False, chain=False, alternatives=False, limits=True, task_limits=True, res_groups=True, max_res=4, max_slots=16)
PF_UNEQ = replace(PF, unequal_teams=True, alternatives=False, max_tasks=6)


def effort_violations(spec, obs, sc_idx=0):
    vs = []
    nontrivial = False
    sc = obs.scen[sc_idx]
    tm = sc.tmap()
    rmap = spec.res_map()
    # slots that hold more than one task (for the non-triviality rule)
    shared = set()
    for rid, led in sc.ledger.items():
        for slot, lst in led.items():
            if len({p for p, s in lst if s > EPS}) >= 2:
                shared.add((rid, slot))
    for p, t in spec.iter_tasks():
        if t.children or t.milestone or t.effort is None or not t.alloc:
            continue
        to = tm.get(p)
        if to is None:
            continue
        per = task_slots(sc, p)
        name = ".".join(p)
        if not to.scheduled:
            continue
        want = t.effort_min() * 60  # seconds of effort
        booked_res = set(per)
        prim = set()
        for a in t.alloc:
            prim.update(spec.leaf_res_ids(a))
        alts = set()
        for a in t.alt:
            alts.update(spec.leaf_res_ids(a))
        if not booked_res:
            vs.append(Violation("scheduled_without_booking", name, f"effort {t.effort} scheduled {to.start}..{to.end} but nothing booked"))
            continue
        if t.alt:
            nontrivial = True
            in_p = booked_res <= prim
            in_a = booked_res <= alts
            if not (in_p or in_a):
                vs.append(Violation("alternative_mixed", name, f"booked on {sorted(booked_res)}; primaries {sorted(prim)}, alternatives {sorted(alts)}"))
                continue
            if in_a and not in_p and len(booked_res) != 1:
                vs.append(Violation("alternative_not_exactly_one", name, f"booked on {sorted(booked_res)}"))
        else:
            if not booked_res <= prim:
                vs.append(Violation("booked_unallocated_resource", name, f"booked on {sorted(booked_res)}; allocated {sorted(prim)}"))
                continue
            if len(t.alloc) > 1 and booked_res != prim:
                vs.append(Violation("team_member_missing", name, f"booked on {sorted(booked_res)}; team {sorted(prim)}"))
        members = sorted(booked_res)
        if len(members) > 1:
            nontrivial = True
            ref = per[members[0]]
            for m in members[1:]:
                if set(per[m]) != set(ref):
                    vs.append(Violation("team_different_slots", name, f"{members[0]}:{sorted(set(ref) ^ set(per[m]))[:6]} differ from {m}"))
                    break
                bad = [s for s in ref if abs(ref[s] - per[m][s]) > 1e-3]
                if bad:
                    vs.append(Violation("team_different_seconds", name, f"slot {bad[0]}: {members[0]}={ref[bad[0]]:.3f} {m}={per[m][bad[0]]:.3f}"))
                    break
        effs = {rmap[m][0].efficiency() for m in members}
        if len(effs) != 1:
            continue  # unequal-efficiency team: amount clause not defined
        eff = effs.pop()
        secs = sum(per[members[0]].values())
        got = secs * float(eff)
        tol = max(1.0, float(eff)) * 1.0 + 1e-3
        slot_effort = obs.gran * float(eff)
        if (want / Fraction(obs.gran) / eff).denominator != 1:
            nontrivial = True
        first = min(per[members[0]])
        if (members[0], first) in shared:
            nontrivial = True
        if got < float(want) - tol:
            vs.append(Violation("effort_short", name, f"booked {got:.3f}s of effort, requested {float(want):.3f}s (eff {eff}, {len(per[members[0]])} slots)"))
        elif got > float(want) + tol:
            kind = "effort_extra_slot" if got - float(want) >= slot_effort - tol else "effort_excess"
            vs.append(Violation(kind, name, f"booked {got:.3f}s of effort, requested {float(want):.3f}s (eff {eff}, {len(per[members[0]])} slots)"))
    return vs, nontrivial


def eval_project(spec):
    text = render(spec)
    obs = observe.observe(text)
    r = Result(key=text)
    if not obs.ok:
        r.classes.append("exc:" + obs.exc_bucket)
        return r
    vs, nt = effort_violations(spec, obs)
    r.violations = vs
    r.nontrivial = nt
    r.classes.append("nontrivial" if nt else "trivial")
    r.classes.append("alap" if spec.sched == "alap" else "asap")
    if nt:
        r.sample = text
    return r


def campaigns(tier):
    q = tier == "quick"
    return [
        Campaign("subslot", "hyp", evaluate=eval_project, strategy=lambda: gen.project_specs(PF), n=3000 if q else 50000, floor_nontrivial=0.3,
                 describe="D1+D2: sub-slot efforts, odd efficiencies, chains, alternatives, project-level ALAP"),
        Campaign("whole", "hyp", evaluate=eval_project, strategy=lambda: gen.project_specs(PF_WHOLE), n=500 if q else 10000,
                 describe="D0+D2: whole-slot efforts, teams, task-level ALAP anchors"),
        Campaign("teams_under_limits", "hyp", evaluate=eval_project, strategy=lambda: gen.project_specs(PF_TEAMLIM), n=800 if q else 16000,
                 describe="teams whose members share resource-group, department and task limits (room for fewer bookings than members)"),
        Campaign("unequal_teams", "hyp", evaluate=eval_project, strategy=lambda: gen.project_specs(PF_UNEQ), n=400 if q else 8000,
                 describe="teams whose members differ in efficiency: same-instants clause only (amount clause undefined)"),
    ]
