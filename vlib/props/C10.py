"""C10 - containers summarise their children and book nothing."""
from __future__ import annotations

from dataclasses import replace

from .. import gen, observe
from ..engine import Campaign, Result, Violation
from ..observe import EPS
from ..spec import render

ID = "C10"
RULE = (
    "Generated task trees of depth <= 6 with a mix of schedulable and unschedulable leaves (never-working resource, "
    "dependency cycle, dependency on an unschedulable task, group allocated directly, unresolved reference), dated "
    "containers, containers carrying effort/allocate, resource groups; forward and backward projects. Oracle, "
    "bottom-up from the reported values: a container is scheduled iff all its children are; if scheduled its start is "
    "the earliest child start and its end the latest child end (children being leaves or containers); the usage "
    "ledger names leaf tasks only and only leaf resources own ledger entries. Non-trivial: nesting depth >= 3 with >= 1 "
    "unscheduled leaf somewhere, or a dated container, or a container carrying work attributes. Distinct = distinct text."
)
ASSUMPTIONS = ["leaf values are taken as reported; whether a leaf *should* be scheduled is C07/C11's business"]

PF = gen.Profile(
    resolutions=[30, 60],
    min_tasks=3,
    max_tasks=12,
    max_res=3,
    depth=6,
    subslot=False,
    deps=0.4,
    container_deps=True,
    dated_containers=True,
    res_groups=True,
    unsched=True,
    container_work=True,
    alap_project=True,
    weeks=(2, 4),
    max_slots=8,
    milestones=True,
    local_ids=True,
)
PF_SC = replace(PF, scenarios=True, depth=4, max_tasks=9, unsched=False, alap_project=False)
PF_SUB = replace(PF, subslot=True, odd_eff=True, resolutions=[15, 20, 60])


def rollup_violations(spec, obs, sc_idx=0):
    vs = []
    sc = obs.scen[sc_idx]
    tm = sc.tmap()
    tmap = spec.task_map()
    depth = 0
    any_unsched_leaf = False
    for p, t in spec.iter_tasks():
        depth = max(depth, len(p))
        to = tm.get(p)
        if to is None:
            vs.append(Violation("task_missing", ".".join(p), "task of the model not present in the project"))
            continue
        if not t.children:
            if not to.scheduled:
                any_unsched_leaf = True
            continue
        kids = [tm.get(p + (c.id,)) for c in t.children]
        if any(k is None for k in kids):
            continue
        all_s = all(k.scheduled for k in kids)
        name = ".".join(p)
        if to.scheduled != all_s:
            vs.append(Violation("container_flag", name, f"scheduled={to.scheduled} but children scheduled={[k.scheduled for k in kids]}"))
            continue
        if not to.scheduled:
            continue
        starts = [k.start for k in kids if k.start is not None]
        ends = [k.end for k in kids if k.end is not None]
        if len(starts) != len(kids) or len(ends) != len(kids):
            vs.append(Violation("scheduled_child_without_dates", name, f"children dates {[(k.start, k.end) for k in kids]}"))
            continue
        if to.start != min(starts):
            vs.append(Violation("container_start", name, f"reported {to.start}, earliest child start {min(starts)}" + (" (dated container)" if t.start else ""),
                                {"dated": t.start is not None}))
        if to.end != max(ends):
            vs.append(Violation("container_end", name, f"reported {to.end}, latest child end {max(ends)}" + (" (container with end date)" if t.end else ""),
                                {"dated": t.end is not None}))
    # ledger: leaf tasks and leaf resources only
    leaf_tasks = {p for p, t in spec.iter_tasks() if not t.children}
    for rid, led in sc.ledger.items():
        real = [(slot, q, s) for slot, lst in led.items() for q, s in lst if s > EPS]
        if real and not sc.res_leaf.get(rid, True):
            vs.append(Violation("group_resource_booked", rid, f"{len(real)} ledger entries on a resource group"))
        for slot, q, s in real:
            if q not in leaf_tasks:
                vs.append(Violation("container_task_booked", ".".join(q), f"{s:.0f}s on {rid} in slot {slot}"))
                break
    dated = any(t.children and (t.start is not None or t.end is not None) for _p, t in spec.iter_tasks())
    work = any(t.children and t.effort is not None for _p, t in spec.iter_tasks())
    nontrivial = (depth >= 3 and any_unsched_leaf) or dated or work
    classes = [f"depth{min(depth, 6)}"] + (["unsched_leaf"] if any_unsched_leaf else []) + (["dated"] if dated else []) + (["container_work"] if work else [])
    return vs, nontrivial, classes


def eval_project(spec):
    text = render(spec)
    obs = observe.observe(text)
    r = Result(key=text)
    if not obs.ok:
        r.classes.append("exc:" + obs.exc_bucket)
        return r
    vs, nt, classes = rollup_violations(spec, obs)
    for k in range(1, len(obs.scen)):  # the roll-up rule holds in every scenario, from that scenario's own dates
        vk, _nt, _c = rollup_violations(spec, obs, k)
        for v in vk:
            v.locus = f"{obs.scen_ids[k] if k < len(obs.scen_ids) else k}:{v.locus}"
        vs.extend(vk)
    if len(obs.scen) > 1:
        classes.append("scenarios")
    r.violations = vs
    r.nontrivial = nt
    r.classes.extend(classes)
    if nt:
        r.sample = text
    return r


def _scenario_cases():
    from . import C16

    return C16.cases(PF_SC)


def campaigns(tier):
    q = tier == "quick"
    return [
        Campaign("trees", "hyp", evaluate=eval_project, strategy=lambda: gen.project_specs(PF), n=4000 if q else 40000, floor_nontrivial=0.2,
                 describe="deep trees, unschedulable leaves, dated containers, containers with work attributes, groups"),
        Campaign("trees_scenarios", "hyp", evaluate=eval_project, strategy=_scenario_cases, n=500 if q else 8000,
                 describe="trees with 1-4 scenarios and scenario-specific efforts / dates: the roll-up is checked in every scenario"),
        Campaign("trees_subslot", "hyp", evaluate=eval_project, strategy=lambda: gen.project_specs(PF_SUB), n=1000 if q else 10000,
                 describe="the same with sub-slot efforts"),
    ]
