"""C06 - reported start and end frame exactly the booked work."""
from __future__ import annotations

from dataclasses import replace
from datetime import timedelta

from hypothesis import strategies as st

from .. import gen, observe, rules
from ..engine import Campaign, Result, Violation
from ..spec import render

ID = "C06"
RULE = (
    "Generated projects (sub-slot efforts incl. tasks that begin and finish inside one slot, mid-slot predecessors, "
    "fractional efficiencies, milestones with and without dependencies, ASAP and ALAP, six resolutions). Oracle per "
    "scheduled effort task with real bookings in slots first..last: start lies in slot first, end lies in (slot last, "
    "slot last + len], the part of the first slot after start holds the seconds booked there, the part of the last "
    "slot before end holds the seconds booked there (1 s rounding), start < end. Forward milestones: start == end == "
    "max(project start, predecessor end/start + gap over own and inherited edges) or the pinned date. Non-trivial: "
    "first or last slot only partially used by the task, or first == last, or a milestone with a mid-slot bound. "
    "Distinct = distinct rendered project text."
)
ASSUMPTIONS = [
    "slot-aligned calendars, UTC project",
    "milestone bound is only judged for forward-scheduled milestones whose predecessors are all scheduled",
]
TOL = timedelta(seconds=1)

PF = gen.Profile(
    resolutions=[5, 10, 15, 20, 30, 60],
    min_tasks=2,
    max_tasks=8,
    max_res=3,
    depth=2,
    subslot=True,
    odd_eff=True,
    deps=0.6,
    alternatives=False,
    alap_project=True,
    alap_task=False,
    chain=True,
    weeks=(2, 4),
    max_slots=6,
    container_deps=False,
)
PF_WHOLE = replace(PF, subslot=False, odd_eff=False, chain=False, alap_task=True, alternatives=True, container_deps=True, depth=3, dated_containers=True,
                   container_work=True, milestones=True)


def frame_violations(spec, obs, sc_idx=0):
    vs = []
    nontrivial = False
    sc = obs.scen[sc_idx]
    tm = sc.tmap()
    gran = timedelta(seconds=obs.gran)
    edges = rules.all_edges(spec)
    from ..findings import _backward_closure

    back_closure = _backward_closure(spec)
    for p, t in spec.iter_tasks():
        if t.children:
            continue
        to = tm.get(p)
        if to is None or not to.scheduled:
            continue
        name = ".".join(p)
        if to.start is None or to.end is None:
            vs.append(Violation("scheduled_without_dates", name, f"start={to.start} end={to.end}"))
            continue
        if to.start > to.end:
            vs.append(Violation("end_before_start", name, f"{to.start} > {to.end}"))
            continue
        is_ms = t.milestone or t.effort is None
        if is_ms:
            if to.start != to.end:
                vs.append(Violation("milestone_not_instant", name, f"{to.start} .. {to.end}"))
                continue
            if rules.explicit_backward(spec, p) or p in back_closure:
                continue  # backward by declaration or by ALAP propagation from an anchored successor: no forward bound
            if t.start is not None:
                if to.start != t.start:
                    vs.append(Violation("milestone_off_pin", name, f"pinned {t.start}, reported {to.start}"))
                continue
            bound = obs.start
            # the start of the nearest dated enclosing container is a lower bound (not a pin)
            for k in range(len(p) - 1, 0, -1):
                a = spec.task_map()[p[:k]]
                if a.start is not None:
                    bound = max(bound, a.start)
                    break
            ok = True
            midslot = False
            for q, gap, onstart, _kind, _d in edges.get(p, []):
                po = tm.get(q)
                if po is None or not po.scheduled or po.start is None or po.end is None:
                    ok = False
                    break
                b = (po.start if onstart else po.end) + gap
                if b > bound:
                    bound = b
            if not ok:
                continue
            if (bound - obs.start).total_seconds() % obs.gran:
                midslot = True
                nontrivial = True
            if abs(to.start - bound) > TOL:
                vs.append(Violation("milestone_off_bound", name, f"dependency bound {bound}, reported {to.start}" + (" (mid-slot bound)" if midslot else "")))
            continue
        span = rules.booked_span(sc, p)
        if span is None:
            continue  # C03 reports scheduled tasks without bookings
        first, last, secs = span
        fa, fb = rules.slot_bounds(obs, first)
        la, lb = rules.slot_bounds(obs, last)
        if first == last or secs[first] < obs.gran - 1e-6 or secs[last] < obs.gran - 1e-6:
            nontrivial = True
        if to.start >= to.end:
            vs.append(Violation("zero_length_with_work", name, f"{to.start} .. {to.end} with {sum(secs.values()):.1f}s booked"))
            continue
        # all comparisons carry the one-second rounding of reported times
        if to.start < fa - TOL or to.start > fb + TOL:
            vs.append(Violation("start_outside_first_slot", name, f"start {to.start}, first booked slot {fa}..{fb} ({secs[first]:.2f}s booked there)"))
        elif (fb - to.start).total_seconds() < secs[first] - 1.0:
            vs.append(Violation("start_after_work", name, f"start {to.start} leaves {(fb - to.start).total_seconds():.0f}s of slot {fa} but {secs[first]:.1f}s are booked there"))
        if to.end > lb + TOL or to.end < la - TOL:
            vs.append(Violation("end_outside_last_slot", name, f"end {to.end}, last booked slot {la}..{lb} ({secs[last]:.2f}s booked there)"))
        elif (to.end - max(to.start, la)).total_seconds() < secs[last] - 1.0:
            vs.append(Violation("end_before_work", name, f"end {to.end} leaves {(to.end - max(to.start, la)).total_seconds():.0f}s of slot {la} but {secs[last]:.1f}s are booked there"))
    return vs, nontrivial


def eval_project(spec):
    text = render(spec)
    obs = observe.observe(text)
    r = Result(key=text)
    if not obs.ok:
        r.classes.append("exc:" + obs.exc_bucket)
        return r
    vs, nt = frame_violations(spec, obs)
    r.violations = vs
    r.nontrivial = nt
    r.classes.append("nontrivial" if nt else "trivial")
    r.classes.append("alap" if spec.sched == "alap" else "asap")
    if nt:
        r.sample = text
    return r


@st.composite
def alap_front(draw):
    """Backward projects whose work fills the horizon right down to the very first slot
    (project start inside working time, or a round-the-clock resource)."""
    from datetime import datetime

    from ..spec import Hours, ProjectSpec, Res, Task

    res_min = draw(st.sampled_from([15, 30, 60]))
    around_clock = draw(st.booleans())
    start = datetime(2025, 1, 6, 0, 0) if around_clock else datetime(2025, 1, 6, 9, 0)
    r = Res("r0")
    if around_clock:
        r.hours = Hours({d: [(0, 0)] for d in range(7)})  # 00:00 - 00:00 = 24 h
    spec = ProjectSpec(start=start, dur=(draw(st.integers(1, 3)), "w"), res_min=res_min, sched="alap", resources=[r])
    k = draw(st.integers(2, 8))  # deadline k slots after the project start
    deadline = start + timedelta(minutes=k * res_min)
    parts = []
    left = k + draw(st.sampled_from([0, 0, 0, -1, 1]))
    while left > 0:
        n = draw(st.integers(1, min(3, left)))
        parts.append(n)
        left -= n
    for i, n in enumerate(parts):
        spec.tasks.append(Task(f"t{i}", effort=(str(n * res_min), "min"), alloc=["r0"], end=deadline,
                               priority=draw(st.sampled_from([None, 100, 500, 900]))))
    return spec


def campaigns(tier):
    q = tier == "quick"
    return [
        Campaign("subslot", "hyp", evaluate=eval_project, strategy=lambda: gen.project_specs(PF), n=3000 if q else 50000, floor_nontrivial=0.3,
                 describe="D1+D2: sub-slot efforts, chains, mid-slot predecessors, milestones"),
        Campaign("whole", "hyp", evaluate=eval_project, strategy=lambda: gen.project_specs(PF_WHOLE), n=1000 if q else 10000,
                 describe="D0+D2: whole-slot efforts, nesting, container dependencies, task-level ALAP"),
        Campaign("alap_front", "hyp", evaluate=eval_project, strategy=alap_front, n=300 if q else 5000,
                 describe="backward work packed against the very first slot of the project (slot index 0)"),
    ]
