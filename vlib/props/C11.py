"""C11 - scheduling is total: it terminates and reports, never crashes or hangs."""
from __future__ import annotations

import glob
import json
import os
import resource as rlimit
import signal
import subprocess
import sys
import tempfile
import time
from dataclasses import replace
from datetime import timedelta

from hypothesis import strategies as st

from .. import boot, gen, observe
from ..engine import Campaign, Result, ShardOut, Violation, _split, _viol_payload
from ..spec import Dep, Hours, render

ID = "C11"
RULE = (
    "Domain A: grammar-directed hostile projects (everything the grammar allows: cycles, self-dependencies, unresolved "
    "references, pins and deadlines before / beyond the horizon, resources that never work, zero and huge efforts, "
    "groups allocated directly, duration / length tasks, gaplength / maxgapduration, contiguous, limits of 0, nested "
    "scenarios) rendered to text. Domain B: valid texts (generated and the repository's 24 fixtures) with 1-6 "
    "token-level corruptions (delete / duplicate / swap tokens or lines, impossible dates, number perturbation, "
    "truncation, brace imbalance, keyword insertion, macro self- and mutual recursion). Domain B2: valid texts in which one "
    "or two numeric literals (durations, efforts, gaps, limits, priorities, efficiencies, rates, the resolution, the "
    "project length) are replaced by 0, -1, huge, tiny or malformed numbers. Domain A also gives resources malformed "
    "time-zone strings and tasks several allocate statements. Domain C: coverage-guided "
    "fuzzing (atheris/libFuzzer, instrumenting scriptplan) of parse+schedule with a token dictionary, seeded with the "
    "fixtures and with an empty corpus. Oracle: parse(schedule=False) either rejects - a lark error (a VisitError "
    "only if it wraps ValueError), a ValueError from scriptplan/parser, or an error message followed by SystemExit(1) "
    "- or accepts; for accepted input schedule() returns without exception within a CPU-time bound (cases over 20 s "
    "are re-run alone after the campaign: parsing more than 40 s twice, or schedule() needing more than 60 s + 5 ms "
    "x slots x leaves x scenarios of the horizon it scheduled, is a violation; cases whose allowance exceeds the "
    "400 s budget of a re-run are inconclusive) and every "
    "leaf task is scheduled with project start <= start <= end <= effective project end, or unscheduled with a "
    "warning on stderr. Failures are bucketed by (exception type, innermost scriptplan module:function). Non-trivial: "
    "accepted-and-infeasible (>= 1 unscheduled leaf) or rejected after the project header. Distinct = distinct text."
)
ASSUMPTIONS = [
    "liveness is decided up to the stated CPU bound only",
    "efforts are bounded by 3000 h and declared horizons by 3 years so that the CPU bound is meaningful for the generated sizes",
]

CPU_LIMIT = 20.0


class CpuTimeout(BaseException):
    pass


def _alarm(signum, frame):
    raise CpuTimeout()


def guarded_observe(text, limit=CPU_LIMIT):
    """observe() under a CPU-time limit (ITIMER_PROF).  Returns (obs or None, cpu seconds)."""
    old = signal.signal(signal.SIGPROF, _alarm)
    t0 = time.process_time()
    signal.setitimer(signal.ITIMER_PROF, limit)
    try:
        obs = observe.observe(text)
    except CpuTimeout:
        obs = None
    finally:
        signal.setitimer(signal.ITIMER_PROF, 0)
        signal.signal(signal.SIGPROF, old)
    return obs, time.process_time() - t0


TIMEOUT_CANDIDATES = []


PARSE_LIMIT = 40.0  # CPU seconds; parsing never depends on the horizon (generated texts are a few kB)
RUN_BUDGET = 400.0  # CPU seconds we are willing to spend on one solitary schedule()
PER_UNIT = 5e-3  # allowance per (slot of the effective horizon x leaf task x scenario); measured honest cost is
#                  10 us (plain) to 250 us (a zone name that cannot be resolved is looked up again for every slot)


def _under_timer(limit, fn):
    """-> (finished, value, cpu seconds)"""
    old = signal.signal(signal.SIGPROF, _alarm)
    t0 = time.process_time()
    signal.setitimer(signal.ITIMER_PROF, limit)
    try:
        val = fn()
        return True, val, time.process_time() - t0
    except CpuTimeout:
        return False, None, time.process_time() - t0
    finally:
        signal.setitimer(signal.ITIMER_PROF, 0)
        signal.signal(signal.SIGPROF, old)


def solitary_verdict(text):
    """Re-run a timeout candidate alone, phase by phase.  -> (violation detail or None, note)

    parse: more than PARSE_LIMIT CPU seconds in two runs is a violation.
    schedule: judged against an allowance that is linear in the size of what was scheduled,
    60 s + PER_UNIT x slots of the effective horizon x leaf tasks x scenarios.  Slow-but-proportional projects
    (a capped multi-year horizon) are never violations; where the allowance exceeds RUN_BUDGET and the run does
    not finish inside the budget, the case is inconclusive."""
    import contextlib
    import io

    def do_parse():
        with contextlib.redirect_stderr(io.StringIO()):
            return observe.parser().parse(text, schedule=False)

    project = None
    for _attempt in (1, 2):
        try:
            fin, project, cpu = _under_timer(PARSE_LIMIT, do_parse)
        except BaseException as e:  # noqa: BLE001 - rejected after all (was slow, not stuck)
            return None, f"re-run alone: rejected with {type(e).__name__} (inconclusive)"
        if fin:
            break
    else:
        return f"parse used more than {PARSE_LIMIT:.0f} s CPU in two solitary re-runs", ""

    def do_schedule():
        with contextlib.redirect_stderr(io.StringIO()):
            project.schedule()

    def allowance():
        gran = project.attributes.get("scheduleGranularity", 3600)
        slots = max(1.0, (project["end"] - project["start"]).total_seconds() / gran)
        leaves = sum(1 for t in project.tasks if t.leaf())
        return 60.0 + PER_UNIT * slots * max(1, leaves) * max(1, project.scenarioCount()), slots, leaves

    # stage 1: the constant part of the allowance.  The horizon is extended at the start of schedule(), so the
    # size of what is being scheduled is known even when the timer fires.
    try:
        fin, _v, cpu = _under_timer(60.0, do_schedule)
    except BaseException as e:  # noqa: BLE001
        return None, f"re-run alone: schedule raised {type(e).__name__} (inconclusive for the time bound)"
    try:
        allow, slots, leaves = allowance()
    except Exception:  # noqa: BLE001
        return None, "re-run alone: size of the scheduled horizon not available (inconclusive)"
    if fin:
        return None, f"slow but finished in {cpu:.1f}s CPU when re-run alone (allowance {allow:.0f}s; not a violation)"
    if allow >= RUN_BUDGET:
        return None, f"not finished within 60s CPU alone; allowance for {slots:.0f} slots x {leaves} leaves is {allow:.0f}s, beyond the budget of a re-run (inconclusive)"
    # stage 2: a project of modest size that still needs more than a minute - run it again with its full allowance
    try:
        fin, project, _c = _under_timer(PARSE_LIMIT, do_parse)
        if not fin:
            return None, "re-run alone: second parse slow (inconclusive)"
        fin, _v, cpu = _under_timer(allow, do_schedule)
    except BaseException as e:  # noqa: BLE001
        return None, f"re-run alone: {type(e).__name__} in the second run (inconclusive for the time bound)"
    if not fin:
        return (f"schedule() used more than {allow:.0f} s CPU alone, the allowance for its size "
                f"({slots:.0f} slots, {leaves} leaves, {project.scenarioCount()} scenarios)"), ""
    return None, f"slow but finished in {cpu:.1f}s CPU when re-run alone (allowance {allow:.0f}s; not a violation)"


def confirm_timeouts(out, seed, shard):
    """Solitary, phase-split re-runs of the (two smallest) timeout candidates; see solitary_verdict."""
    cands = sorted(set(TIMEOUT_CANDIDATES), key=len)[: (1 if os.environ.get("VERIF_TIER", "quick") == "quick" else 2)]
    del TIMEOUT_CANDIDATES[:]
    for text in cands:
        detail, note = solitary_verdict(text)
        if detail:
            v = Violation("cpu_bound_exceeded", "project", detail, {"bucket": "timeout"})
            unknown, known = _split([v], "C11", text)
            for k in known:
                out.known_hits[k] += 1
            if unknown and out.violation is None:
                out.violation = _viol_payload("C11", "hostile", text, unknown, seed, shard, text[:1500])
        else:
            out.notes.append(note)


REJECT_TYPES = ("UnexpectedToken", "UnexpectedCharacters", "UnexpectedEOF", "UnexpectedInput", "LarkError", "LexError", "ParseError")


def classify(text, obs):
    """-> (outcome, violations).  outcome in {rejected, accepted, accepted_infeasible, internal_error}"""
    vs = []
    if not obs.ok:
        et = obs.exc_type
        bucket = obs.exc_bucket
        if obs.phase == "parse":
            base = et.split("/")[0]
            if base in REJECT_TYPES:
                return "rejected", vs
            if base == "VisitError" and et.endswith("/ValueError"):
                return "rejected", vs
            if base == "ValueError" and "@parser." in bucket:
                return "rejected", vs
            if base == "SystemExit" and obs.stderr.strip():
                return "rejected", vs
            vs.append(Violation("internal_error_in_parse", bucket, f"{et}: {obs.exc_msg[:200]}", {"bucket": bucket}))
            return "internal_error", vs
        vs.append(Violation("internal_error_in_schedule", bucket, f"{et}: {obs.exc_msg[:200]}", {"bucket": bucket}))
        return "internal_error", vs
    infeasible = False
    sc_n = len(obs.scen)
    for k in range(sc_n):
        for t in obs.scen[k].tasks:
            if not t.leaf:
                continue
            name = ".".join(t.path)
            if t.scheduled:
                if t.start is None or t.end is None:
                    vs.append(Violation("scheduled_without_dates", name, f"scenario {k}: {t.start}..{t.end}", {"bucket": "scheduled_without_dates"}))
                elif t.start > t.end:
                    vs.append(Violation("end_before_start", name, f"scenario {k}: {t.start}..{t.end}", {"bucket": "end_before_start"}))
                elif t.start < obs.start or t.end > obs.end + timedelta(seconds=obs.gran):
                    vs.append(Violation("scheduled_outside_horizon", name, f"scenario {k}: {t.start}..{t.end} outside {obs.start}..{obs.end}",
                                        {"bucket": "scheduled_outside_horizon"}))
            else:
                infeasible = True
    if infeasible and not ("could not be scheduled" in obs.stderr or "Deadlock" in obs.stderr):
        vs.append(Violation("unscheduled_without_warning", "project", f"unscheduled leaf tasks but stderr is {obs.stderr[-200:]!r}", {"bucket": "unscheduled_without_warning"}))
    return ("accepted_infeasible" if infeasible else "accepted"), vs


def eval_text(text):
    r = Result(key=text)
    obs, cpu = guarded_observe(text)
    if obs is None:
        # never a verdict inside the generated run (CPU time under load is not reproducible):
        # remembered and re-run alone after the campaign (confirm_timeouts)
        TIMEOUT_CANDIDATES.append(text)
        r.classes.append("timeout_candidate")
        return r
    outcome, vs = classify(text, obs)
    r.violations = vs
    r.classes.append(outcome)
    r.nontrivial = outcome == "accepted_infeasible" or (outcome == "rejected" and "project" in text[: max(0, _err_pos(obs))])
    if outcome == "rejected":
        r.nontrivial = _err_pos(obs) > text.find("{") > 0
    if r.nontrivial:
        r.sample = text[:1500]
    return r


def replay_evaluate(text):
    """Replay (and corpus regression) of one text: like eval_text, but a timeout is decided at once by the solitary re-run."""
    r = eval_text(text)
    if "timeout_candidate" in r.classes:
        del TIMEOUT_CANDIDATES[:]
        detail, _note = solitary_verdict(text)
        if detail:
            r.violations = [Violation("cpu_bound_exceeded", "project", detail, {"bucket": "timeout"})]
    return r


def _err_pos(obs):
    import re

    m = re.search(r"line (\d+)", obs.exc_msg or "")
    if m:
        return 10 ** 6 if int(m.group(1)) > 2 else 0
    return 10 ** 6 if obs.exc_type.startswith(("VisitError", "ValueError", "SystemExit")) else 0


# ---- Domain A: hostile specs ------------------------------------------------------------------
PF_HOSTILE = gen.Profile(
    resolutions=[15, 30, 60],
    min_tasks=1,
    max_tasks=8,
    max_res=3,
    depth=4,
    subslot=True,
    odd_eff=True,
    deps=0.6,
    container_deps=True,
    calendars=True,
    zones=True,
    crossmid=True,
    limits=True,
    task_limits=True,
    res_groups=True,
    alternatives=True,
    alap_project=True,
    alap_task=True,
    scenarios=True,
    unsched=True,
    container_work=True,
    dated_containers=True,
    unaligned_pins=True,
    milestones=True,
    start_tod=True,
    weeks=(1, 6),
    max_slots=20,
    glob_leaves=True,
)

HOSTILE_LINES = [
    "duration 3d", "length 2d", "duration 0d", "effort 0h", "effort 3000h", "effort 0.001h", "milestone", "flags contiguous",
    "priority 0", "priority 1000", "priority -5", "complete 50", "scheduling alap", "scheduling asap", "note \"x\"",
    "start 2019-01-01", "start 2031-06-01", "end 2019-01-01", "end 2031-06-01", "end 2025-01-07-10:00",
    "limits { dailymax 0h }", "limits { weeklymax 0.1h }", "allocate nosuchres", "responsible r0",
    "allocate r0 { alternative r1 }", "allocate r1", "allocate r0, r1 { alternative r2 select minloaded }", "allocate r0 { persistent }",
    "effort 4h", "start ${nosuchmacro}", "end ${nosuchmacro}", "start 2025-01-09 end 2025-01-07", "milestone start 2025-01-08-08:01 end 2025-01-07-10:00", "end 2025-01-07 start 2025-01-07-00:01", "duration 0.5h", "start 2025-01-06-00:07", "end 2025-01-06",
]
BAD_ZONES = ["Europe/", "Europe//Berlin", "/Europe/Berlin", "../UTC", "zone.tab", "", " ", "Mars/Olympus", "UTC+25", "europe/berlin", "Europe/Berlin\\", "E" * 300]
HOSTILE_DEP_OPTS = ["gaplength 2d", "gaplength 500h", "maxgapduration 1h", "gapduration 2000h", "onend", "gapduration 0min", "gaplength 0h", "gapduration 99999999h",
                    "gaplength 99999999d", "gapduration 1y"]


@st.composite
def hostile_texts(draw):
    spec = draw(gen.project_specs(PF_HOSTILE))
    nodes = list(spec.iter_tasks())
    for p, t in nodes:
        k = draw(st.integers(0, 4))
        if k == 0:
            t.extra.append(draw(st.sampled_from(HOSTILE_LINES)))
        elif k == 1 and nodes:
            q, _ = draw(st.sampled_from(nodes))  # any target: self, ancestor, descendant, cycle
            t.deps.append(Dep(q, gapkind=draw(st.sampled_from(["gapduration", "gaplength", "maxgapduration"])),
                              gap=draw(st.sampled_from([None, (1, "h"), (3, "d"), (30, "min"), (400, "h")])), onstart=draw(st.booleans())))
        elif k == 2 and t.deps:
            t.extra.append("depends " + ".".join(draw(st.sampled_from(nodes))[0]) + " { " + draw(st.sampled_from(HOSTILE_DEP_OPTS)) + " }")
    def walk(rs):
        for r in rs:
            yield r
            yield from walk(r.children)

    for r in walk(spec.resources):
        if draw(st.integers(0, 7)) == 0:  # the grammar takes any string as a zone name
            r.tz = draw(st.sampled_from(BAD_ZONES))
            if r.hours is None and not r.children and draw(st.booleans()):
                r.hours = Hours({d: [(8 * 60, 16 * 60)] for d in range(5)})
    if draw(st.integers(0, 5)) == 0:
        spec.extra_header.append(draw(st.sampled_from(["now 2025-01-08", "timezone \"UTC\"", "dailyworkinghours 6", "yearlyworkingdays 250", "weekstartsmonday", "currency \"USD\""])))
    if draw(st.integers(0, 7)) == 0:
        spec.dur = draw(st.sampled_from([(1, "d"), (3, "y"), (18, "m"), (1, "w"), (99999999, "w"), (0, "d")]))
    text = render(spec)
    if draw(st.integers(0, 6)) == 0:
        text = "flags contiguous, hidden\n" + text.replace("task ", "task ", 1)
    return text


# ---- Domain B: corruptions ----------------------------------------------------------------------
PF_VALID = gen.Profile(resolutions=[30, 60], min_tasks=2, max_tasks=6, max_res=3, depth=3, deps=0.6, calendars=True, limits=True, task_limits=True,
                       res_groups=True, alap_project=True, scenarios=True, weeks=(2, 4), max_slots=8, container_deps=True)

_FIX = None


def fixtures():
    global _FIX
    if _FIX is None:
        _FIX = []
        for fn in sorted(glob.glob(os.path.join(boot.REPO, "tests", "data", "*.tjp"))):
            with open(fn, errors="replace") as f:
                _FIX.append(f.read())
    return _FIX


KEYWORDS = ["task", "resource", "depends", "precedes", "allocate", "effort", "limits", "{", "}", "}}", "{{", "project", "macro x [", "]", "${x}", "${", "!",
            "start", "end", "2025-02-30", "0000-01-01", "9999-12-31", "9995-01-01", "${nosuch}", "2025-13-01-25:61", "-1", "1e9", "0", "999999999999", "\"", "'", "#", "/*", "*/", "scenario",
            "shift", "workinghours", "mon - fri", "24:00 - 25:00", "gapduration", "onstart", "dailymax", "taskreport", "columns", "formats", "leaves", "vacation", ",", ":", "."]


@st.composite
def corrupted_texts(draw):
    fx = fixtures()
    if fx and draw(st.integers(0, 2)) == 0:
        text = draw(st.sampled_from(fx))
    else:
        text = render(draw(gen.project_specs(PF_VALID)))
    import re

    for _ in range(draw(st.integers(1, 6))):
        toks = re.findall(r"\s+|[^\s]+", text)
        if not toks:
            break
        op = draw(st.integers(0, 9))
        i = draw(st.integers(0, len(toks) - 1))
        if op == 0:
            del toks[i]
        elif op == 1:
            toks.insert(i, toks[i])
        elif op == 2:
            j = draw(st.integers(0, len(toks) - 1))
            toks[i], toks[j] = toks[j], toks[i]
        elif op == 3:
            toks[i] = draw(st.sampled_from(KEYWORDS))
        elif op == 4:
            toks.insert(i, " " + draw(st.sampled_from(KEYWORDS)) + " ")
        elif op == 5:
            text = "".join(toks)
            cut = draw(st.integers(0, len(text)))
            toks = [text[:cut]]
        elif op == 6:
            lines = "".join(toks).split("\n")
            a = draw(st.integers(0, len(lines) - 1))
            b = draw(st.integers(0, len(lines) - 1))
            lines[a], lines[b] = lines[b], lines[a]
            toks = ["\n".join(lines)]
        elif op == 7:
            toks[i] = re.sub(r"\d+", lambda m: draw(st.sampled_from(["0", "-1", "99999999", "1e9", m.group(0) + "0000"])), toks[i], count=1)
        elif op == 8:
            macro = draw(st.sampled_from(["macro m [ ${m} ]\n", "macro a [ ${b} ]\nmacro b [ ${a} ]\n", "macro g [ x ${g} ${g} ]\n", "macro d [ task zz \"zz\" { } ]\n"]))
            toks.insert(0, macro)
            toks.append("\n${" + draw(st.sampled_from(["m", "a", "g", "d", "nosuch", "projectstart", "now"])) + "}\n")
        else:
            toks[i] = toks[i].replace("{", "").replace("}", "") or "{"
        text = "".join(toks)
    return text


# ---- Domain B2: one hostile number in an otherwise valid project ------------------------------------
PF_NUM = gen.Profile(resolutions=[15, 30, 60], min_tasks=2, max_tasks=6, max_res=3, depth=3, deps=0.7, gaps=True, subslot=True, calendars=True, limits=True,
                     task_limits=True, res_groups=True, alap_project=True, alap_task=True, scenarios=True, weeks=(1, 4), max_slots=8, container_deps=True,
                     priorities=True, rates=True, leaves=True)
HOSTILE_NUMBERS = ["0", "-1", "99999999", "999999999999", "1e9", "0.0000001", "1000000", "00", "2147483648", "9" * 25, "9" * 400, "0.5", "1.5"]
_NUM_RE = None


@st.composite
def number_texts(draw):
    """A valid generated project (or a fixture) in which one or two numeric literals - the value of a duration,
    effort, gap, limit, priority, efficiency, rate, resolution or the project length - are replaced by a
    hostile number.  Dates and identifiers are left alone."""
    global _NUM_RE
    import re

    if _NUM_RE is None:
        _NUM_RE = re.compile(r"(?<![\w.:\-+\"])(\+?)(\d+(?:\.\d+)?)(?=(?:min|h|d|w|m|y|%)?(?![\w.:\-]))")
    fx = fixtures()
    if fx and draw(st.integers(0, 4)) == 0:
        text = draw(st.sampled_from(fx))
    else:
        text = render(draw(gen.project_specs(PF_NUM)))
    for _ in range(draw(st.integers(1, 2))):
        ms = [m for m in _NUM_RE.finditer(text)]
        if not ms:
            break
        m = ms[draw(st.integers(0, len(ms) - 1))]
        text = text[: m.start(2)] + draw(st.sampled_from(HOSTILE_NUMBERS)) + text[m.end(2):]
    return text


# ---- Domain C: atheris ---------------------------------------------------------------------------
def run_atheris(seed, shard, nshards, out: ShardOut, n):
    """Run the libFuzzer target in a subprocess per shard; internal errors are bucketed by the target and
    written to a directory (the fuzzer itself is never stopped by a finding)."""
    root = os.path.join(boot.VERIF, ".build", "c11_fuzz")
    os.makedirs(root, exist_ok=True)
    work = tempfile.mkdtemp(prefix=f"s{shard}_", dir=root)
    corpus = os.path.join(work, "corpus")
    finds = os.path.join(work, "finds")
    os.makedirs(corpus)
    os.makedirs(finds)
    seeded = shard % 2 == 0
    if seeded:
        for i, t in enumerate(fixtures()):
            if len(t) < 6000:
                with open(os.path.join(corpus, f"fix{i}.tjp"), "w") as f:
                    f.write(t)
    runs = max(200, n // nshards)
    env = dict(os.environ, VERIF_C11_FINDS=finds, PYTHONHASHSEED="0")
    cmd = [sys.executable, os.path.join(boot.VERIF, "vlib", "c11_fuzz.py"), corpus, f"-runs={runs}", f"-seed={seed * 100 + shard + 1}", "-max_len=3000",
           "-timeout=120", f"-dict={os.path.join(boot.VERIF, 'vlib', 'tjp.dict')}", "-rss_limit_mb=4096", "-print_final_stats=1"]
    t0 = time.time()
    try:
        p = subprocess.run(cmd, env=env, capture_output=True, text=True, timeout=3300)
        tail = (p.stderr or "")[-1500:]
        import re

        m = re.search(r"stat::number_of_executed_units:\s*(\d+)", p.stderr or "")
        execs = int(m.group(1)) if m else 0
        stats = {}
        sf = os.path.join(finds, "stats.json")
        if os.path.exists(sf):
            with open(sf) as f:
                stats = json.load(f)
        out.evaluations += execs
        out.cases += execs
        for k, v in stats.get("outcomes", {}).items():
            out.classes["fuzz:" + k] += v
        for k in stats.get("nontrivial_keys", [])[:5000]:
            out.keys.add(k)
        for s_ in stats.get("samples", [])[:1]:
            if len(out.samples) < 2:
                out.samples.append({"fuzz_input": s_})
        out.notes.append(f"atheris shard {shard} ({'fixture corpus' if seeded else 'empty corpus'}): {execs} executions in {time.time() - t0:.0f}s, rc={p.returncode}")
        if p.returncode not in (0,) and not glob.glob(os.path.join(finds, "bucket_*.json")):
            # libFuzzer stopped on its own (crash of the target process, timeout, OOM): that is a finding of the harness kind
            out.error = f"atheris exited rc={p.returncode}: {tail}"
        for fn in sorted(glob.glob(os.path.join(finds, "bucket_*.json"))):
            with open(fn) as f:
                b = json.load(f)
            v = Violation(b["kind"], b["bucket"], b["detail"], {"bucket": b["bucket"]})
            unknown, known = _split([v], "C11", b["text"])
            for kf in known:
                out.known_hits[kf] += 1
            if unknown and out.violation is None:
                out.violation = _viol_payload("C11", "atheris", b["text"], unknown, seed, shard, b["text"][:1500])
    finally:
        import shutil

        shutil.rmtree(work, ignore_errors=True)


def campaigns(tier):
    q = tier == "quick"
    return [
        Campaign("hostile", "hyp", evaluate=eval_text, strategy=hostile_texts, n=1500 if q else 40000, floor_nontrivial=0.1, post=confirm_timeouts,
                 describe="grammar-directed hostile projects"),
        Campaign("corrupted", "hyp", evaluate=eval_text, strategy=corrupted_texts, n=1500 if q else 40000, floor_nontrivial=0.1, post=confirm_timeouts,
                 describe="token-level corruptions of generated projects and the repository fixtures"),
        Campaign("numbers", "hyp", evaluate=eval_text, strategy=number_texts, n=1200 if q else 30000, post=confirm_timeouts,
                 describe="valid projects in which one or two numeric literals are replaced by a hostile number"),
        Campaign("atheris", "custom", run=run_atheris, evaluate=eval_text, n=16000 if q else 480000, shards=8 if q else 16,
                 describe="coverage-guided fuzzing of parse+schedule (libFuzzer via atheris), fixture-seeded and empty corpus"),
    ]
