"""C08 - no eligible working time is left idle (earliest / latest fit)."""
from __future__ import annotations

from dataclasses import replace
from datetime import timedelta

from .. import findings, gen, observe, rules
from ..calendar_oracle import Calendar
from ..engine import Campaign, Result, Violation
from ..observe import EPS
from ..spec import render

ID = "C08"
RULE = (
    "Generated projects incl. sub-slot efforts, fractional efficiencies, contention on shared resources, leaves, own "
    "calendars, time zones and cross-midnight shifts; forward tasks, project-level ALAP and task-level ALAP with "
    "explicit-end anchors. Oracle at slot granularity: for a forward task T on resources Rs with dependency bound b "
    "(own pin, else max of project start, dated container, observed predecessor end/start + gap) and last booked slot "
    "l, no slot i with b <= start(i) and i < l is working for every R in Rs (independent calendar), entirely unbooked "
    "in the final ledger and unused by T. Mirror for backward tasks: deadline D = own end | min(successor start - gap) "
    "| effective project end; T.end <= D and no such slot between T's last slot and D. Tasks with a limit anywhere on "
    "their path (resource, group, task, ancestors), alternatives, or whose mode was changed by ALAP propagation are "
    "generated but not judged. Non-trivial: the scanned range contains >= 1 non-working or foreign-booked slot. "
    "Distinct = distinct rendered text."
)
FREE_TOL = 1.0  # seconds; reported times are rounded to seconds

ASSUMPTIONS = [
    "tasks are placed one at a time and bookings only grow afterwards, so free seconds of a slot in the final ledger were free when T passed it",
    "bookings are never withdrawn, so a slot that is entirely free in the final ledger was free when T was placed",
    "a mid-slot bound: judged from the first slot that starts at or after the bound",
    "slot-aligned calendars (DESIGN 3.1)",
]

PF = gen.Profile(
    resolutions=[10, 15, 30, 60],
    min_tasks=3,
    max_tasks=9,
    max_res=3,
    depth=2,
    subslot=True,
    odd_eff=True,
    deps=0.5,
    calendars=True,
    zones=True,
    crossmid=True,
    leaves=True,
    alap_project=True,
    alap_task=True,
    teams=True,
    chain=True,
    weeks=(2, 4),
    max_slots=10,
    onstart=True,
)
PF_CHAINS = replace(PF, alap_project=False, alap_task=True, alap_chains=True, subslot=False, odd_eff=False, chain=False, onstart=False, deps=0.8, max_tasks=8,
                    calendars=False, zones=False, crossmid=False)
PF_WHOLE = replace(PF, subslot=False, odd_eff=False, chain=False, container_deps=True, depth=3, limits=True, local_ids=True)


def limited(spec, p, members):
    tmap = spec.task_map()
    rmap = spec.res_map()
    for k in range(1, len(p) + 1):
        if tmap[p[:k]].limits:
            return True
    for rid in members:
        r, anc = rmap[rid]
        if r.limits or any(a.limits for a in anc):
            return True
    return False


def idle_violations(spec, obs, sc_idx=0):
    vs = []
    cal = Calendar(spec)
    sc = obs.scen[sc_idx]
    tm = sc.tmap()
    tmap = spec.task_map()
    rmap = spec.res_map()
    gran = timedelta(seconds=obs.gran)
    edges = rules.all_edges(spec)
    back_closure = findings._backward_closure(spec)  # over-approximation: who *may* run backward (used to skip)
    # under-approximation: who *must* run backward by the documented propagation - leaf predecessors reached
    # from an anchor (a declared-ALAP leaf with its own end date) over edges written on leaves themselves;
    # container edges and inherited edges are left out, an ASAP task with its own start ends the chain
    strict = set()
    _all = rules.all_edges(spec)
    work = [p for p, t in spec.iter_tasks() if not t.children and t.end is not None and rules.explicit_backward(spec, p)]
    seen = set(work)
    while work:
        p = work.pop()
        for e in _all.get(p, []):
            q, kind = e[0], e[3]
            if not kind.startswith("own-") or q not in tmap or tmap[q].children or q in seen:
                continue
            if tmap[q].start is not None and not rules.explicit_backward(spec, q):
                continue
            seen.add(q)
            strict.add(q)
            work.append(q)
    # successors (for the backward mirror)
    succ = {}
    for p, es in edges.items():
        if tmap[p].children:
            continue
        for q, gap, onstart, kind, d in es:
            for lp, lt in spec.iter_tasks():
                if not lt.children and lp[: len(q)] == q and lp != p:
                    succ.setdefault(lp, []).append((p, gap, onstart))
    booked_any = {}  # rid -> {slot: seconds booked by all tasks}
    for rid, led in sc.ledger.items():
        booked_any[rid] = {s: sum(x for _p, x in lst if x > EPS) for s, lst in led.items() if any(x > EPS for _p, x in lst)}

    def foreign_edge_inside(members, i, me, backward):
        """Does another *forward* task begin strictly inside slot i?  A forward task that is delayed into
        the slot (dependency / gap offset) marks the seconds before its start as used although nobody
        works then; the position-less slot ledger cannot hand them out to anybody, whatever the
        direction of the task that passes by (known finding F02).  A backward task that begins inside
        the slot merely took the tail; the head stays bookable and is judged."""
        a, b = rules.slot_bounds(obs, i)
        for r in members:
            for q, x in sc.ledger.get(r, {}).get(i, []):
                if q == me or x <= EPS:
                    continue
                qo = tm.get(q)
                if qo is None or qo.start is None:  # (a task that could not be completed still has its noted start)
                    continue
                q_backward = rules.explicit_backward(spec, q) or q in back_closure
                if not q_backward and a + timedelta(seconds=1) < qo.start < b:
                    return True
        return False

    def team_surplus(members, i, me):
        """Known finding F04: a member of a *team* task has seconds of slot i that the scheduler's own
        ledger (slotSecondsUsed) counts as used although no task of that member works then - the team only
        took the part of the slot that was free on all of its members, because a team-mate had given part of
        the slot to another task.  The position-less ledger cannot hand the surplus to anybody."""
        for r in members:
            blocked = sc.used.get(r, {}).get(i, 0.0) - booked_any.get(r, {}).get(i, 0.0)
            if blocked <= FREE_TOL:
                continue
            for q, x in sc.ledger.get(r, {}).get(i, []):
                if q == me or x <= EPS:
                    continue
                tq = tmap.get(q)
                if tq is None or len(tq.alloc) < 2:
                    continue
                for mate in tq.alloc:
                    if mate == r:
                        continue
                    if any(q2 != q and x2 > EPS for q2, x2 in sc.ledger.get(mate, {}).get(i, [])):
                        return True
        return False

    def free_secs(members, i):
        """seconds of slot i that are free on every member in the final ledger"""
        return min(obs.gran - booked_any.get(r, {}).get(i, 0.0) for r in members)
    nslots = int((obs.end - obs.start) / gran)
    nontrivial = False
    classes = set()
    wcache = {}

    def working(rid, i):
        k = (rid, i)
        if k not in wcache:
            a = observe.slot_time(obs, i)
            wcache[k] = cal.working(rid, a) and cal.working(rid, a + gran - timedelta(seconds=1))
        return wcache[k]

    for p, t in spec.iter_tasks():
        if t.children or t.milestone or t.effort is None or not t.alloc or t.alt:
            continue
        if any(a not in rmap or rmap[a][0].children for a in t.alloc):
            continue
        to = tm.get(p)
        if to is None or not to.scheduled or to.start is None:
            continue
        members = list(t.alloc)
        if limited(spec, p, members):
            classes.add("limited_not_judged")
            continue
        span = rules.booked_span(sc, p)
        if span is None:
            continue
        first, last, secs = span
        name = ".".join(p)
        declared_back = rules.explicit_backward(spec, p)
        if not declared_back and p in strict:
            # documented ALAP propagation: predecessors of an anchored ALAP task are scheduled backward, too
            classes.add("propagated_alap")
            declared_back = True
        elif not declared_back and p in back_closure:
            classes.add("propagated_alap_not_judged")
            continue
        if not declared_back:
            # ---- forward ----------------------------------------------------------------
            if t.start is not None:
                bound = t.start
            else:
                bound = obs.start
                for k in range(len(p) - 1, 0, -1):
                    if tmap[p[:k]].start is not None:
                        bound = max(bound, tmap[p[:k]].start)
                        break
                ok = True
                for q, gap, onstart, kind, d in edges.get(p, []):
                    po = tm.get(q)
                    if po is None:
                        continue
                    if not po.scheduled or po.start is None or po.end is None:
                        ok = False
                        break
                    bound = max(bound, (po.start if onstart else po.end) + gap)
                if not ok:
                    continue
            off = (bound - obs.start)
            i0 = -(-off // gran)  # first slot starting at or after the bound
            skipped_something = False
            for i in range(max(0, int(i0)), last):
                if i in secs:
                    continue
                fs = free_secs(members, i)
                work = all(working(r, i) for r in members)
                if not (fs > FREE_TOL and work):
                    skipped_something = True
                    continue
                kind = "idle_slot_before_end" if fs >= obs.gran - 1e-6 else "idle_part_of_slot_before_end"
                vs.append(Violation(kind, name,
                                    f"slot {observe.slot_time(obs, i)} is working and has {fs:.0f}s free on {members} but is unused; bound {bound}, task {to.start}..{to.end}",
                                    {"mode": "asap", "foreign_edge_inside": foreign_edge_inside(members, i, p, False),
                                     "team_surplus": team_surplus(members, i, p)}))
                break
            # inside the first booked slot: the task must not wait while its resources are free.
            # Other tasks' shares that end before the bound cannot explain a later start.
            fa, fb = rules.slot_bounds(obs, first)
            lo = max(bound, fa)
            if first >= int(off // gran) and to.start > lo + timedelta(seconds=1) and first != last:
                # the members must be free at the same instants: what blocks the team is the union of the
                # other tasks' work on any member (each other task counted once, with its largest share)
                per_task = {}
                for r in members:
                    for q, x in sc.ledger.get(r, {}).get(first, []):
                        if q == p or x <= EPS:
                            continue
                        qo = tm.get(q)
                        if qo is None or qo.end is None or qo.start is None:
                            share = x
                        else:
                            hi_q = min(qo.end, fb)
                            lo_q = max(qo.start, fa)
                            share = max(0.0, min(x, (hi_q - max(lo, lo_q)).total_seconds()))
                        per_task[q] = max(per_task.get(q, 0.0), share)
                others_after = sum(per_task.values())
                waited = (to.start - lo).total_seconds()
                if waited > others_after + 1.0:
                    vs.append(Violation("waits_inside_first_slot", name,
                                        f"starts {to.start} although the bound is {bound} and other work in slot {fa} after the bound takes at most {others_after:.0f}s",
                                        {"mode": "asap", "foreign_edge_inside": foreign_edge_inside(members, first, p, False)}))
            if skipped_something:
                nontrivial = True
                classes.add("asap_skipped")
        else:
            # ---- backward ----------------------------------------------------------------
            if any(onstart for _q, _g, onstart, _k, _d in edges.get(p, [])):
                continue
            deadline = t.end
            if deadline is None:
                for k in range(len(p) - 1, 0, -1):  # container deadline handed down to terminal tasks
                    if tmap[p[:k]].end is not None and p not in succ:
                        deadline = tmap[p[:k]].end
                        break
            if deadline is None:
                deadline = obs.end
                ok = True
                for sp, gap, onstart in succ.get(p, []):
                    if onstart:
                        ok = False
                        break
                    so = tm.get(sp)
                    if so is None or not so.scheduled or so.start is None:
                        ok = False
                        break
                    deadline = min(deadline, so.start - gap)
                if not ok:
                    continue
            if to.end is not None and to.end > deadline + timedelta(seconds=1):
                vs.append(Violation("ends_after_deadline", name, f"end {to.end} > deadline {deadline}", {"mode": "alap"}))
                continue
            skipped_something = False
            i = last + 1
            while i <= nslots and observe.slot_time(obs, i) + gran <= deadline:
                if i not in secs:
                    fs = free_secs(members, i)
                    work = all(working(r, i) for r in members)
                    if fs > FREE_TOL and work:
                        kind = "idle_slot_before_deadline" if fs >= obs.gran - 1e-6 else "idle_part_of_slot_before_deadline"
                        vs.append(Violation(kind, name,
                                            f"slot {observe.slot_time(obs, i)} is working and has {fs:.0f}s free on {members} but is unused; deadline {deadline}, task {to.start}..{to.end}",
                                            {"mode": "alap", "foreign_edge_inside": foreign_edge_inside(members, i, p, True),
                                             "team_surplus": team_surplus(members, i, p)}))
                        break
                    skipped_something = True
                i += 1
            if skipped_something:
                nontrivial = True
                classes.add("alap_skipped")
    return vs, nontrivial, classes


def eval_project(spec):
    text = render(spec)
    obs = observe.observe(text)
    r = Result(key=text)
    if not obs.ok:
        r.classes.append("exc:" + obs.exc_bucket)
        return r
    vs, nt, classes = idle_violations(spec, obs)
    r.violations = vs
    r.nontrivial = nt
    r.classes.extend(sorted(classes))
    r.classes.append("alap_project" if spec.sched == "alap" else "asap_project")
    if nt:
        r.sample = text
    return r


def campaigns(tier):
    q = tier == "quick"
    return [
        Campaign("subslot", "hyp", evaluate=eval_project, strategy=lambda: gen.project_specs(PF), n=1800 if q else 45000, floor_nontrivial=0.3,
                 describe="D0-D3 with sub-slot efforts, zones, cross-midnight shifts, project- and task-level ALAP"),
        Campaign("alap_chains", "hyp", evaluate=eval_project, strategy=lambda: gen.project_specs(PF_CHAINS), n=700 if q else 15000,
                 describe="forward projects with anchored task-level ALAP tasks that have predecessor chains (ALAP propagation)"),
        Campaign("whole", "hyp", evaluate=eval_project, strategy=lambda: gen.project_specs(PF_WHOLE), n=2000 if q else 30000,
                 describe="whole-slot efforts, nesting, container edges; limited tasks generated but not judged"),
    ]
