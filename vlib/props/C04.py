"""C04 - dependencies and gaps are respected."""
from __future__ import annotations

from dataclasses import replace
from datetime import timedelta

from .. import gen, observe, rules
from ..engine import Campaign, Result, Violation
from ..spec import render

ID = "C04"
RULE = (
    "Generated nested task trees (depth <= 4) with DAGs over leaves and containers: own depends, container depends, "
    "precedes (on leaves and containers), absolute and relative ('!') references, gaps 0..3 days in min/h (d/w units "
    "as a separate campaign), on-start / on-end, slot-aligned and sub-slot efforts, leaves, priorities; ASAP projects "
    "and ALAP projects shaped as the statement allows (deadlines only on successor-less tasks and top-level "
    "containers, no on-start edges, no mode mixing); dated containers with dependent children. Edges are re-derived "
    "from the model (true targets). Oracle: for every scheduled task T without an own pinned start (forward) / end "
    "(backward) and every edge P->T with P scheduled: T.start >= P.end + gap (on-start, forward: P.start + gap), 1 s "
    "tolerance. Non-trivial: >= 1 checked edge that is binding or near-binding (slack < 1 day) and is inherited, "
    "relative, a precedes, gapped or on-start. Distinct = distinct rendered text."
)
ASSUMPTIONS = [
    "gaplength (working-time gaps) is outside the statement",
    "unscheduled tasks are not judged here (C07/C11 own spurious deadlocks)",
    "on-start edges in backward mode and chains mixing both modes are not claimed (statement)",
]
TOL = timedelta(seconds=1)

PF = gen.Profile(
    resolutions=[15, 30, 60],
    min_tasks=3,
    max_tasks=9,
    max_res=3,
    depth=4,
    subslot=False,
    deps=0.75,
    gaps=True,
    dup_edges=True,
    local_ids=True,
    onstart=True,
    precedes=True,
    relrefs=True,
    container_deps=True,
    priorities=True,
    pins=True,
    milestones=True,
    leaves=True,
    alap_project=False,
    alap_task=False,
    weeks=(3, 6),
    max_slots=8,
    teams=True,
)
PF_SUB = replace(PF, subslot=True, odd_eff=True, resolutions=[10, 20, 30, 60])
PF_ALAP = replace(PF, alap_project=True, onstart=False, pins=False)  # generator draws alap in 1/3 of the cases
PF_ALAP_DEEP = replace(PF, alap_project=True, alap_always=True, onstart=False, pins=False, depth=5, max_tasks=12, deps=0.85)
PF_DATED = replace(PF, dated_containers=True, depth=3)
PF_DW = replace(PF, gap_units=("d", "w"), weeks=(6, 9))


def edge_violations(spec, obs, sc_idx=0):
    vs = []
    sc = obs.scen[sc_idx]
    tm = sc.tmap()
    tmap = spec.task_map()
    edges = rules.all_edges(spec)
    nontrivial = False
    classes = set()
    backward_project = spec.sched == "alap"
    for p, t in spec.iter_tasks():
        if t.children:
            continue  # a container starts with its earliest child; every child is judged with the inherited edges
        to = tm.get(p)
        if to is None or not to.scheduled or to.start is None:
            continue
        backward = rules.explicit_backward(spec, p)
        if backward and t.end is not None:
            continue  # own pinned end in backward mode
        if not backward and t.start is not None:
            continue  # own pinned start in forward mode
        for q, gap, onstart, kind, d in edges.get(p, []):
            po = tm.get(q)
            if po is None or not po.scheduled or po.start is None or po.end is None:
                continue
            if onstart and backward:
                continue  # not claimed
            if q == p[: len(q)] or p == q[: len(p)]:
                continue  # edge to an own ancestor/descendant: meaningless
            bound = (po.start if onstart else po.end) + gap
            slack = to.start - bound
            special = kind.startswith("inherited") or "precedes" in kind or kind.endswith("rel") or gap or onstart or bool(tmap[q].children)
            if special and slack < timedelta(days=1):
                nontrivial = True
                classes.add(kind.split("-rel")[0] + ("+gap" if gap else "") + ("+onstart" if onstart else "") + ("/alap" if backward else ""))
            if slack < -TOL:
                dated_anc = [".".join(p[:k]) for k in range(1, len(p)) if tmap[p[:k]].start is not None]
                vs.append(
                    Violation(
                        "edge_violated",
                        ".".join(p),
                        f"starts {to.start} but predecessor {'.'.join(q)} {'starts' if onstart else 'ends'} "
                        f"{po.start if onstart else po.end} + gap {gap} = {bound} [{kind}{'/alap' if backward else ''}"
                        f"{'; dated container ' + dated_anc[0] if dated_anc else ''}]",
                        {"kind": kind, "gap": bool(gap), "gap_unit": d.gap[1] if d.gap else None, "onstart": onstart, "backward": backward,
                         "dated_container": bool(dated_anc), "pred_is_container": bool(tmap[q].children)},
                    )
                )
    return vs, nontrivial, classes


def eval_project(spec):
    text = render(spec)
    obs = observe.observe(text)
    r = Result(key=text)
    if not obs.ok:
        r.classes.append("exc:" + obs.exc_bucket)
        return r
    vs, nt, classes = edge_violations(spec, obs)
    r.violations = vs
    r.nontrivial = nt
    r.classes.extend(sorted(classes))
    unsched = sum(1 for t in obs.scen[0].tasks if not t.scheduled)
    r.classes.append("all_scheduled" if not unsched else "some_unscheduled")
    if nt:
        r.sample = text
    return r


def campaigns(tier):
    q = tier == "quick"
    return [
        Campaign("asap", "hyp", evaluate=eval_project, strategy=lambda: gen.project_specs(PF), n=1500 if q else 40000, floor_nontrivial=0.3,
                 describe="forward projects: nested trees, container deps, precedes, relative refs, min/h gaps, on-start"),
        Campaign("asap_subslot", "hyp", evaluate=eval_project, strategy=lambda: gen.project_specs(PF_SUB), n=500 if q else 10000,
                 describe="the same with sub-slot efforts and unaligned gaps"),
        Campaign("alap", "hyp", evaluate=eval_project, strategy=lambda: gen.project_specs(PF_ALAP), n=800 if q else 20000,
                 describe="backward projects shaped as the statement allows (1/3 of the draws), else forward"),
        Campaign("alap_deep", "hyp", evaluate=eval_project, strategy=lambda: gen.project_specs(PF_ALAP_DEEP), n=800 if q else 20000,
                 describe="backward projects only, nesting up to five levels, dense edges incl. edges on containers of containers"),
        Campaign("dated_containers", "hyp", evaluate=eval_project, strategy=lambda: gen.project_specs(PF_DATED), n=400 if q else 8000,
                 describe="containers carrying a start date whose children have dependencies"),
        Campaign("gap_d_w", "hyp", evaluate=eval_project, strategy=lambda: gen.project_specs(PF_DW), n=300 if q else 6000,
                 describe="gapduration written in calendar days / weeks"),
    ]
